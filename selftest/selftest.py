#!/venv/bin/python
"""Mutant self-test (DESIGN.md 2.5): is each check sensitive to breakage?

  /venv/bin/python selftest/selftest.py [--only C10[,C03...]] [--tests] [--jobs N]

For every mutant in selftest/mutants.json: copy /repo's working tree to a
scratch directory outside /repo and /verif, apply the textual replacement,
optionally run the repository's own test suite on it (--tests; mutants marked
"test_visible" are expected to fail it), run the property's quick check with
VERIF_REPO=<scratch>, expect exit 1 (VIOLATION), and remove the scratch copy.
Not a registered check.
"""
import argparse
import json
import os
import shutil
import subprocess
import sys
import tempfile
from concurrent.futures import ThreadPoolExecutor

HERE = os.path.dirname(os.path.abspath(__file__))
VERIF = os.path.dirname(HERE)
REPO = '/repo'


def run_one(m, run_tests):
  scratch = tempfile.mkdtemp(prefix='vf-mut-')
  try:
    dst = os.path.join(scratch, 'repo')
    shutil.copytree(REPO, dst, ignore=shutil.ignore_patterns('.git', '__pycache__', '*.pyc', '.pytest_cache'))
    for e in (m.get('edits') or [m]):
      path = os.path.join(dst, e['file'])
      src = open(path).read()
      if src.count(e['old']) != 1:
        return m, 'BAD-MUTANT (old text occurs %d times in %s)' % (src.count(e['old']), e['file']), ''
      open(path, 'w').write(src.replace(e['old'], e['new']))
    tests = ''
    if run_tests:
      p = subprocess.run(['/venv/bin/python', '-m', 'pytest', '-q', '-x', '-p', 'no:cacheprovider',
                          '--timeout=900', 'test/scales'], cwd=dst, capture_output=True, text=True)
      tests = 'repo-tests=%s' % ('pass' if p.returncode == 0 else 'FAIL')
    env = dict(os.environ)
    env['VERIF_REPO'] = dst
    env['VERIF_OUT'] = os.path.join(scratch, 'out')      # evidence / replays of mutant runs never touch /verif
    env.setdefault('VERIF_SEED', '1')
    cmd = ['/venv/bin/python', '-m', 'vf.run', m['property'], '--tier', 'quick']
    p = subprocess.run(cmd, cwd=VERIF, env=env, capture_output=True, text=True)
    out = p.stdout + p.stderr
    # do not let mutant runs overwrite committed evidence / litter replays
    key = ''
    for line in out.splitlines():
      if line.strip().startswith('key='):
        key = line.strip()
    if p.returncode == 1 and 'VIOLATION property=%s' % m['property'] in out:
      return m, 'caught %s' % key, tests
    return m, 'MISSED (exit %d) %s' % (p.returncode, out[-300:].replace('\n', ' | ')), tests
  finally:
    shutil.rmtree(scratch, ignore_errors=True)


def main():
  ap = argparse.ArgumentParser()
  ap.add_argument('--only', default=None)
  ap.add_argument('--tests', action='store_true')
  ap.add_argument('--jobs', type=int, default=8)
  a = ap.parse_args()
  muts = json.load(open(os.path.join(HERE, 'mutants.json')))
  if a.only:
    only = set(a.only.split(','))
    muts = [m for m in muts if m['property'] in only or m['name'] in only]
  missed = 0
  with ThreadPoolExecutor(a.jobs) as ex:
    for m, verdict, tests in ex.map(lambda m: run_one(m, a.tests), muts):
      print('%-4s %-34s %s %s' % (m['property'], m['name'], verdict, tests))
      sys.stdout.flush()
      if not verdict.startswith('caught'):
        missed += 1
  print('%d mutants, %d missed' % (len(muts), missed))
  return 1 if missed else 0


if __name__ == '__main__':
  sys.exit(main())
