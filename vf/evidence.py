"""Evidence recorder and writer (DESIGN.md 2.4, appendix A)."""
import collections
import hashlib
import json
import os

from .boot import VERIF_DIR, OUT_DIR


def canon(obj):
  return json.dumps(obj, sort_keys=True, default=repr, ensure_ascii=True)


def fp(obj):
  return hashlib.sha1(canon(obj).encode('utf-8')).hexdigest()[:16]


class Outcome(object):
  """What execute(plan) reports back for evidence.

  nontrivial - None, or a JSON-able note of *why* the case is non-trivial by
               the property's rule (distinct non-trivial plans are counted);
  classes    - iterable of class labels for the histogram.
  """
  __slots__ = ('nontrivial', 'classes', 'counts')

  def __init__(self, nontrivial=None, classes=(), counts=None):
    self.nontrivial = nontrivial
    self.classes = tuple(classes)
    self.counts = counts or {}


class Recorder(object):
  def __init__(self, prop_id, tier, seed):
    self.prop_id = prop_id
    self.tier = tier
    self.seed = seed
    self.evaluations = 0
    self.nontrivial = set()
    self.nontrivial_cases = 0
    self.classes = collections.Counter()
    self.samples = []
    self.nt_samples = []
    self.known_hits = collections.Counter()
    self.excluded = 0
    self.extra = {}
    self.exhaustive = None
    self.last_failure = None   # (plan, Violation)
    self.first_failure = None
    self.max_samples = 4

  def note(self, plan, outcome):
    self.evaluations += 1
    if outcome is None:
      outcome = Outcome()
    for c in outcome.classes:
      self.classes[c] += 1
    for k, v in outcome.counts.items():
      self.extra[k] = self.extra.get(k, 0) + v
    if outcome.nontrivial is not None:
      self.nontrivial_cases += 1
      # distinct = distinct plans (cases); the reason goes to the samples
      h = fp(plan)
      if h not in self.nontrivial:
        self.nontrivial.add(h)
        if len(self.nt_samples) < self.max_samples:
          self.nt_samples.append({'plan': plan, 'nontrivial_because': outcome.nontrivial})
    elif len(self.samples) < 1:
      self.samples.append({'plan': plan})

  def partial(self):
    return {
        'evaluations': self.evaluations,
        'nontrivial': sorted(self.nontrivial),
        'nontrivial_cases': self.nontrivial_cases,
        'classes': dict(self.classes),
        'samples': self.samples + self.nt_samples,
        'known_hits': dict(self.known_hits),
        'excluded': self.excluded,
        'extra': self.extra,
        'exhaustive': self.exhaustive,
    }


def merge_partials(parts):
  out = {'evaluations': 0, 'nontrivial': set(), 'nontrivial_cases': 0,
         'classes': collections.Counter(), 'samples': [],
         'known_hits': collections.Counter(), 'excluded': 0, 'extra': {},
         'exhaustive': None}
  for p in parts:
    out['evaluations'] += p['evaluations']
    out['nontrivial'].update(p['nontrivial'])
    out['nontrivial_cases'] += p['nontrivial_cases']
    out['classes'].update(p['classes'])
    if len(out['samples']) < 6:
      out['samples'].extend(p['samples'][:2] if out['samples'] else p['samples'])
    out['known_hits'].update(p['known_hits'])
    out['excluded'] += p['excluded']
    for k, v in p.get('extra', {}).items():
      if isinstance(v, (int, float)) and isinstance(out['extra'].get(k), (int, float)):
        out['extra'][k] += v
      else:
        out['extra'].setdefault(k, v)
    if p.get('exhaustive') is not None:
      out['exhaustive'] = bool(p['exhaustive']) and out['exhaustive'] is not False
  return out


def write_evidence(mod, tier, seed, merged, wall_s, violations, shards=1):
  cov = {
      'evaluations': int(merged['evaluations']),
      'distinct_nontrivial': len(merged['nontrivial']),
      'nontrivial_cases': int(merged['nontrivial_cases']),
      'rule': mod.RULE,
      'samples': merged['samples'][:6],
      'classes': dict(sorted(dict(merged['classes']).items())),
      'known_findings': dict(merged['known_hits']),
      'excluded_by_construction': int(merged['excluded']),
      'shards': shards,
  }
  if merged.get('exhaustive') is not None:
    cov['exhaustive'] = bool(merged['exhaustive'])
  for k, v in merged.get('extra', {}).items():
    cov.setdefault(k, v)
  doc = {
      'property_id': mod.ID,
      'tier': tier,
      'seed': int(seed),
      'level': mod.LEVEL,
      'coverage': cov,
      'assumptions': list(mod.ASSUMPTIONS),
      'wall_s': round(float(wall_s), 3),
      'violations': int(violations),
  }
  d = os.path.join(OUT_DIR, 'evidence')
  os.makedirs(d, exist_ok=True)
  path = os.path.join(d, '%s.json' % mod.ID)
  tmp = path + '.tmp'
  with open(tmp, 'w') as f:
    json.dump(doc, f, indent=1, sort_keys=True, default=repr)
    f.write('\n')
  os.replace(tmp, path)
  return path, doc
