"""Per-case isolation and driver primitives (DESIGN.md 2.2)."""
import logging
import random
import weakref

from . import boot
from .boot import loop

import gevent
from gevent.hub import Waiter

import scales.timer_queue as _tq
import scales.sink as _sink
import scales.dispatch as _dispatch
import scales.varz as _varz
import scales.loadbalancer.aperture as _aperture
import scales.core as _core


class Violation(Exception):
  """A property does not hold for the executed plan."""

  def __init__(self, prop, key, detail):
    Exception.__init__(self, '%s [%s] %s' % (prop, key, detail))
    self.prop = prop
    self.key = key
    self.detail = detail


class SpinDetected(Exception):
  """The code under test kept calling a dead simulated socket without ever yielding (raised when the World ends)."""


class ApiRaised(Exception):
  """A call that is valid whatever the state of the client (closing it) raised; reported as a violation of the property being checked."""


class SpinBreak(BaseException):
  """Raised inside the spinning greenlet to end it."""


class HarnessError(Exception):
  """The harness itself is broken / was used wrongly (exit 2, never a VIOLATION)."""


def now():
  return loop.now()


def settle():
  """Return when no callback is runnable and no timer is due at this instant."""
  w = Waiter()
  loop.on_settled(lambda: w.switch(None))
  w.get()


def advance(dt):
  """Let dt seconds of virtual time pass, then settle."""
  if dt > 0:
    gevent.sleep(dt)
  settle()


def run_until(t):
  d = t - loop.now()
  advance(d if d > 0 else 0)


class _LogCapture(logging.Handler):
  def __init__(self):
    logging.Handler.__init__(self, level=logging.DEBUG)
    self.records = []

  def emit(self, record):
    try:
      msg = record.getMessage()
    except Exception:
      msg = str(record.msg)
    self.records.append((record.name, record.levelno, msg, loop.now()))


# generated Thrift processors log handler exceptions on the root logger: keep them off stderr
logging.getLogger().addHandler(logging.NullHandler())
_SCALES_LOG = logging.getLogger('scales')
_SCALES_LOG.propagate = False
_SCALES_LOG.setLevel(logging.DEBUG)
logging.getLogger('kazoo').setLevel(logging.CRITICAL)
logging.getLogger('kazoo').propagate = False

_live = []   # weakrefs of greenlets started in the current world


def _on_spawn(g):
  _live.append(weakref.ref(g))


gevent.Greenlet.add_spawn_callback(_on_spawn)


class World(object):
  """Context manager: one generated case runs inside one World."""

  current = None

  def __init__(self, seed=0, cpu=1e-6, epoch=None):
    self.seed = seed
    self.cpu = cpu
    self.epoch = epoch
    self.log = None

  def __enter__(self):
    if World.current is not None:
      raise HarnessError('nested World')
    World.current = self
    del _live[:]
    loop.reset(self.epoch, self.cpu)
    del boot.greenlet_errors[:]
    random.seed(self.seed)
    self.log = _LogCapture()
    for h in list(_SCALES_LOG.handlers):
      _SCALES_LOG.removeHandler(h)
    _SCALES_LOG.addHandler(self.log)
    # fresh module singletons bound to the virtual clock
    gq = _tq.TimerQueue(time_source=loop.now)
    _tq.GLOBAL_TIMER_QUEUE = gq
    _sink.GLOBAL_TIMER_QUEUE = gq
    if hasattr(_dispatch, 'GLOBAL_TIMER_QUEUE'):
      _dispatch.GLOBAL_TIMER_QUEUE = gq
    lrt = _tq.LowResolutionTime()
    _tq.LOW_RESOLUTION_TIME_SOURCE = lrt
    _varz.LOW_RESOLUTION_TIME_SOURCE = lrt
    _aperture.LOW_RESOLUTION_TIME_SOURCE = lrt
    lrq = _tq.TimerQueue(time_source=lrt.Get, resolution=1)
    _tq.LOW_RESOLUTION_TIMER_QUEUE = lrq
    _aperture.LOW_RESOLUTION_TIMER_QUEUE = lrq
    self.timer_queue = gq
    _varz.VarzReceiver.VARZ_DATA.clear()
    _core.ClientProxyBuilder._PROXY_TYPE_CACHE.clear()
    _core.Scales.SERVICE_REGISTRY.clear()
    self.cleanups = []
    self.spin = None
    return self

  def logged(self, substring, min_level=0):
    return [r for r in self.log.records if substring in r[2] and r[1] >= min_level]

  def __exit__(self, et, ev, tb):
    try:
      for fn in reversed(self.cleanups):
        try:
          fn()
        except Exception:
          pass
      for _ in range(8):
        alive = [g for g in (r() for r in _live) if g is not None and not g.dead]
        if not alive:
          break
        for g in alive:
          g.kill(block=False)
        try:
          settle()
        except BaseException as e:  # LoopExit etc.
          if et is None:
            raise HarnessError('teardown failed: %r' % (e,))
          break
      else:
        if et is None:
          raise HarnessError('greenlets survive teardown')
    finally:
      del _live[:]
      loop.reset()
      _SCALES_LOG.removeHandler(self.log)
      World.current = None
    if self.spin is not None and (et is None or not issubclass(et, Violation)):
      raise SpinDetected(self.spin)
    return False
