"""Harness for the load-balancer properties (C03, C04, C05, C06).

A plan ({"config": ..., "ops": [...]}) is interpreted against a real
HeapBalancerSink / ApertureBalancerSink built from its Builder over harness
channels and a harness server-set provider, next to a reference model.
"""
import collections
import math

import gevent
from gevent.queue import Queue

from vf.world import Violation, HarnessError, settle, advance
from vf.boot import loop

from scales.asynchronous import AsyncResult
from scales.constants import ChannelState, MessageProperties, SinkProperties
from scales.core import ScalesUriParser
from scales.loadbalancer.base import NoMembersError
from scales.loadbalancer.heap import HeapBalancerSink
from scales.loadbalancer.aperture import ApertureBalancerSink
from scales.loadbalancer.serverset import ServerSetProvider
from scales.message import Deadline, MethodCallMessage, MethodReturnMessage, TimeoutError
from scales.observable import Observable
from scales.sink import ClientMessageSink, ClientMessageSinkStack, SinkProviderBase
from scales.varz import VarzReceiver

PORT0 = 9000
MAIN = gevent.getcurrent()
HOST = 'h'


_Member = collections.namedtuple('_Member', 'service_endpoint additional_endpoints')


# endpoints of a custom server-set provider: any hashable with host and port (the library's own KafkaEndpoint is a namedtuple too)
HostPort = collections.namedtuple('HostPort', 'host port')


def mk_server(port, endpoint_name=None, etype=None):
  if etype == 'tuple':
    if endpoint_name:
      return _Member(HostPort('svc.' + HOST, port), {endpoint_name: HostPort(HOST, port), 'other': HostPort('other.' + HOST, port)})
    return ScalesUriParser.Server(HostPort(HOST, port))
  if endpoint_name:
    # the balancer is configured to use a named endpoint: the member's service endpoint is a different address
    return _Member(ScalesUriParser.Endpoint('svc.' + HOST, port), {endpoint_name: ScalesUriParser.Endpoint(HOST, port),
                                                                    'other': ScalesUriParser.Endpoint('other.' + HOST, port)})
  return ScalesUriParser.Server(ScalesUriParser.Endpoint(HOST, port))


class Channel(ClientMessageSink):
  """A member channel owned by the harness."""

  def __init__(self, run, endpoint, gen, open_delay, open_fail):
    ClientMessageSink.__init__(self)
    self.run = run
    self.endpoint = endpoint
    self.port = endpoint.port
    self.gen = gen
    self._state = ChannelState.Idle
    self.open_delay = open_delay
    self.open_fail = open_fail
    self.open_calls = 0
    self.close_steps = []
    self.requests = []
    self._open_ar = None
    self.outstanding = 0      # model: dispatched to this channel and not completed
    self.open_done_at = None
    self.removed_at = None    # step at which its endpoint left the server set

  def __repr__(self):
    return 'ch(%d#%d)' % (self.port, self.gen)

  @property
  def state(self):
    # a balancer that reads member states without end, with no request reaching a member or completing in between, is
    # spinning (a corrupted heap or down-queue):
    # counted deterministically, so that the case is reported instead of hanging the run
    run = self.run
    n = run.state_reads = getattr(run, 'state_reads', 0) + 1
    if n > 200000:
      run.state_reads = 0
      for prop in ('C03', 'C04', 'C05', 'C06'):
        run.viol(prop, 'balancer-spins', 'the balancer read member states 200 000 times without a request reaching a member or completing in between')
    return self._state

  def Open(self):
    self.open_calls += 1
    if self._open_ar is None:
      ar = self._open_ar = AsyncResult()

      def impl():
        if self.open_delay:
          gevent.sleep(self.open_delay)
        if self.open_fail:
          if self._state == ChannelState.Idle:
            self._state = ChannelState.Closed
          self.open_done_at = loop.now()
          ar.set_exception(Exception('open failed %r' % self))
        else:
          if self._state == ChannelState.Idle:
            self._state = ChannelState.Open
          self.open_done_at = loop.now()
          ar.set(True)
      if self.open_delay:
        gevent.spawn(impl)
      else:
        impl()
    return self._open_ar

  def Close(self):
    self.close_steps.append(self.run.step)
    self._state = ChannelState.Closed
    self._open_ar = None
    if self.run.cfg.get('close_fails_inflight'):
      # like the library's own pools and mux transport: closing fails whatever is still in flight, synchronously,
      # and each of those completions comes back through the balancer's release path
      for r in list(self.requests):
        if r is not None and r.channel is self and not r.completions:
          self.run.flags.add('close_failed_requests_in_flight')
          try:
            r.stack.AsyncProcessResponseMessage(MethodReturnMessage(error=Exception('connection closed')))
          except Violation:
            raise
          except Exception as e:
            self.run.raised('failing request %d from %r.Close()' % (r.id, self), e)

  def AsyncProcessRequest(self, sink_stack, msg, stream, headers):
    req = msg.properties.get('__vf_req')
    self.run.state_reads = 0      # a request reaching a member is progress
    if req is not None and getattr(req, 'timed_out_parked', False):
      for prop in ('C04', 'C03', 'C05', 'C06'):
        self.run.viol(prop, 'dispatched-after-timeout', 'request %d timed out while it was parked in the balancer (its caller holds TimeoutError), yet it was handed to %r later: that member carries load for a call that is over' % (req.id, self))
    self.requests.append(req)
    if req is not None:
      req.channel = self
      self.outstanding += 1
    if self._state == ChannelState.Closed and self.run.sync_fail:
      sink_stack.AsyncProcessResponseMessage(MethodReturnMessage(error=Exception('channel closed')))
    elif self.run.service_time is not None and req is not None:
      st = self.run.service_time * (1.0 + 0.1 * (req.id % 3))
      g = gevent.Greenlet(sink_stack.AsyncProcessResponseMessage, MethodReturnMessage('ok'))
      g.start_later(st)

  def AsyncProcessResponse(self, sink_stack, context, stream, msg):
    raise HarnessError('channel got a response')


class ChannelProvider(SinkProviderBase):
  def __init__(self, run):
    SinkProviderBase.__init__(self)
    self.run = run
    self.created = []

  def CreateSink(self, properties):
    ep = properties[SinkProperties.Endpoint]
    n = len(self.created)
    cfg = self.run.cfg
    delays = cfg.get('open_delay_ms') or [0]
    fails = cfg.get('open_fail') or [False]
    ch = Channel(self.run, ep, n, delays[n % len(delays)] / 1000.0, fails[n % len(fails)])
    self.created.append(ch)
    return ch

  @property
  def sink_class(self):
    return Channel


class HSSP(ServerSetProvider):
  """Server-set provider with a single serial notifier greenlet."""

  def __init__(self, run, initial, getservers_delay):
    self.run = run
    self.members = list(initial)     # ports, ordered
    self.delay = getservers_delay
    self.on_join = None
    self.on_leave = None
    self.q = Queue()
    self.closed = 0
    self.notifier = None
    self.delivered_before_init = 0
    self.load_attempts = 0

  @property
  def endpoint_name(self):
    return self.run.cfg.get('endpoint_name')

  @property
  def etype(self):
    return self.run.cfg.get('endpoint_type')

  def Initialize(self, on_join, on_leave):
    self.on_join = on_join
    self.on_leave = on_leave
    if self.notifier is None:
      self.notifier = gevent.spawn(self._notify)

  def _notify(self):
    while True:
      kind, port = self.q.get()
      fn = self.on_join if kind == 'join' else self.on_leave
      fn(mk_server(port, self.endpoint_name, self.etype))

  def GetServers(self):
    pf = self.run.cfg.get('provider_fail')
    if pf and self.load_attempts < pf[1]:
      # the provider's first loads fail (ZooKeeper not reachable yet): the balancer must retry
      self.load_attempts += 1
      self.run.flags.add('provider_load_failed_first')
      if pf[0] == 'timeout':
        raise gevent.Timeout(1.0)       # what kazoo's gevent handler raises; not an Exception subclass
      raise IOError('server set not reachable')
    snap = [mk_server(p, self.endpoint_name, self.etype) for p in self.members]
    dup = self.run.cfg.get('initial_dup')
    if dup and snap:
      # the same endpoint listed twice (tcp://a:1,b:1,a:1, or a re-registration before the old znode expired):
      # equal but distinct member objects
      snap.insert(dup % (len(snap) + 1), mk_server(self.members[dup % len(self.members)], self.endpoint_name, self.etype))
      self.run.flags.add('endpoint_listed_twice')
    if self.delay:
      gevent.sleep(self.delay)
    return snap

  def Close(self):
    self.closed += 1

  def event(self, kind, port):
    if kind == 'join':
      if port not in self.members:
        self.members.append(port)
    else:
      if port in self.members:
        self.members.remove(port)
    if self.on_join is not None:
      self.q.put((kind, port))


class HandlerBoom(Exception):
  """Raised by the harness's own response handler (a sink above the balancer that fails while handling a response)."""


class Terminal(ClientMessageSink):
  def AsyncProcessRequest(self, *a):
    raise HarnessError('terminal')

  def AsyncProcessResponse(self, sink_stack, context, stream, msg):
    context.completions.append((loop.now(), msg))
    run_ = getattr(context, 'run', None)
    if run_ is not None:
      run_.state_reads = 0      # a completion is progress
    if context.done is not None:
      context.done.set()
    hook, context.on_done = getattr(context, 'on_done', None), None
    if hook is not None:
      hook()      # a sink above the balancer that issues the next request from inside the response path (retry, chaining)
    if getattr(context, 'handler_raises', False):
      context.handler_raises = False
      raise HandlerBoom('response handler of request %d failed' % context.id)


class Req(object):
  def __init__(self, rid, step):
    self.id = rid
    self.step = step
    self.completions = []
    self.channel = None
    self.stack = None
    self.msg = None
    self.accounted = False     # model decremented the channel's outstanding
    self.done = None


class LBRun(object):
  def __init__(self, plan, prop):
    self.plan = plan
    self.prop = prop
    self.cfg = plan['config']
    self.sync_fail = bool(self.cfg.get('sync_fail'))
    self.step = -1
    self.reqs = []
    self.flags = set()
    self.kind = self.cfg['balancer']
    self.marked_down = set()     # endpoint strings, from the balancer's log
    self._log_pos = 0
    self.selection = None
    self.nports = self.cfg.get('nports', 9)
    self.max_inversions = 0
    self.pending_violation = None
    self.service_time = None
    self.steady = None
    self.events = []

  # --- construction
  def build(self, world):
    self.world = world
    self.clock_skew = 0.0
    self.back_total = 0.0
    self.freeze_until = 0.0
    self.window_incomplete_until = 0.0
    self.leave_in_next_jitter = None
    cfg = self.cfg
    initial = [PORT0 + i for i in cfg['initial']]
    self.ssp = HSSP(self, initial, cfg.get('getservers_delay_ms', 0) / 1000.0)
    self.chans = ChannelProvider(self)
    if self.kind == 'heap':
      prov = HeapBalancerSink.Builder(server_set_provider=self.ssp)
    else:
      a = cfg['aperture']
      prov = ApertureBalancerSink.Builder(
          server_set_provider=self.ssp, min_size=a['min_size'], max_size=a['max_size'],
          min_load=a['min_load'], max_load=a['max_load'],
          jitter_min_sec=a.get('jitter_min', 0), jitter_max_sec=a.get('jitter_max', 0))
    prov.next_provider = self.chans
    self.lb = prov.CreateSink({SinkProperties.Label: 'svc'})
    lb = self.lb
    orig_on_get = lb._OnGet

    def on_get(node):
      # membership of the set "in use" at the moment of selection
      self.selection = [(n.endpoint, n.channel, n.channel.state) for n in lb._heap[1:]]
      return orig_on_get(node)
    lb._OnGet = on_get
    if self.kind == 'aperture' and self.prop == 'C06':
      self.instrument_aperture()
    self.open_ar = lb.Open()

  # --- C06: observe every aperture adjustment
  def gauge(self, name):
    d = VarzReceiver.VARZ_DATA.get('scales.loadbalancer.Aperture.' + name)
    if not d:
      return None
    vals = [v for k, v in d.items() if k.service == 'svc']
    return vals[-1] if len(vals) == 1 else None

  def instrument_aperture(self):
    lb = self.lb
    a = self.cfg['aperture']
    orig_adjust = lb._AdjustAperture
    orig_contract = lb._ContractAperture
    ctx = {'adjust': 0}

    def healthy():
      return len([n for n in lb._heap[1:] if n.channel.is_open])

    def adjust(amount):
      s0 = lb._size
      idle0 = bool(lb._idle_endpoints)
      # an expansion is pending while the channel it added is still opening (modelled from the harness's own channels,
      # not read from the balancer's bookkeeping)
      pending0 = any(n.channel._open_ar is not None and not n.channel._open_ar.ready() and n.channel in self.expanded
                     for n in lb._heap[1:])
      # ... and for a few event-loop turns after it has opened: the balancer learns of the completion through a
      # continuation that runs on a later turn (each turn costs 1 us of virtual time)
      pending_maybe = not pending0 and any(n.channel in self.expanded and n.channel.open_done_at is not None and
                                           loop.now() - n.channel.open_done_at < 200e-6 for n in lb._heap[1:])
      # ... and while a channel that an expansion had added, and that has left the aperture again (its member left the
      # server set while it was still connecting), has not finished that connect attempt: until then the balancer may
      # still count the expansion as pending
      pending_maybe = pending_maybe or (not pending0 and any(
          ch in self.expanded and ch.close_steps and ch.open_calls > 0 and
          (ch.open_done_at is None or loop.now() - ch.open_done_at < 200e-6) for ch in self.chans.created))
      healthy0 = healthy()
      total0 = lb._total
      ctx['adjust'] += 1
      try:
        r = orig_adjust(amount)
      finally:
        ctx['adjust'] -= 1
      s1 = lb._size
      L = self.gauge('load_average')
      self.n_adjust += 1
      now_ = loop.now()
      hist = self.load_samples
      v_ = lb._total
      if hist['first'] is None:
        hist['first'] = now_
        hist['lo'] = hist['hi'] = v_
      hist['lo'], hist['hi'] = min(hist['lo'], v_), max(hist['hi'], v_)
      hist['n'] += 1
      # sliding-window minimum / maximum over the last 30 s (monotonic deques)
      for dq, worse in ((hist['minq'], lambda a, b: a >= b), (hist['maxq'], lambda a, b: a <= b)):
        while dq and worse(dq[-1][1], v_):
          dq.pop()
        dq.append((now_, v_))
        while dq[0][0] < now_ - (30.0 + self.back_total):
          dq.popleft()
      if s0 > 0 and L is not None:
        # any exponential smoothing with a 5 s constant is a weighted mean of the totals sampled at each event in
        # which everything older than 30 s weighs at most e^-6: the published value lies in the range of the last
        # 30 s of samples, widened by e^-6 x the range of all samples
        rlo, rhi = hist['minq'][0][1], hist['maxq'][0][1]
        if now_ < self.window_incomplete_until:
          # a backwards clock step has just widened the window (the clock guard freezes smoothing for as long as the
          # step): until the retained samples cover it again only "a weighted mean of all samples" is demanded
          rlo, rhi = hist['lo'], hist['hi']
        old = hist['first'] < now_ - (30.0 + self.back_total)
        eps = (math.exp(-6.0) * (hist['hi'] - hist['lo']) if old else 0.0) + 1e-6
        avg_ = L * s0
        if old:
          self.flags.add('smoothing_checked_with_history_older_than_30s')
        if not (rlo - eps <= avg_ <= rhi + eps):
          self.viol('C06', 'smoothing', 'outstanding total stayed within [%d, %d] for the last 30 s (all-time range [%d, %d]), but the smoothed load reads %.4f (load average %.4f x %d active)' % (
              rlo, rhi, hist['lo'], hist['hi'], avg_, L, s0))
        if L >= a['max_load'] and idle0 and s0 < a['max_size']:
          want = s0 + 1
          self.flags.add('load_expand')
        elif L <= a['min_load'] and s0 > a['min_size'] and not pending0 and healthy0 > a['min_size']:
          want = s0 - 1
          self.flags.add('load_contract')
        else:
          want = s0
        if s1 != want and not (pending_maybe and want == s0 - 1 and s1 == s0):
          self.viol('C06', 'direction', 'adjust(%+d): load average %.4f (band %r..%r), size %d -> %d, expected %d (idle=%r pending=%r healthy=%d min_size=%d max_size=%d)' % (
              amount, L, a['min_load'], a['max_load'], s0, s1, want, idle0, pending0, healthy0, a['min_size'], a['max_size']))
        if s1 > s0 and s1 > a['max_size']:
          self.viol('C06', 'beyond-max-size', 'load-driven growth %d -> %d beyond max_size %d' % (s0, s1, a['max_size']))
        st = self.steady
        if st is not None and loop.now() - st['start'] >= 30.0 and loop.now() >= self.freeze_until + 30.0:
          avg = L * s0
          lvl = st['level']
          st['checked'] += 1
          if not (lvl - 1 - 0.1 <= avg <= lvl + 1 + 0.1):
            self.viol('C06', 'tracking', '%d requests outstanding for %.1f s, but smoothed load %.3f (load average %.4f x %d active)' % (
                lvl, loop.now() - st['start'], avg, L, s0))
      if self.steady is not None:
        self.steady['sizes'].append((loop.now(), s1))
        if s1 != s0:
          self.steady['changes'].append((loop.now(), s0, s1))
      return r

    def contract(force=False):
      s0 = lb._size
      members = len(lb._servers)
      r = orig_contract(force)
      s1 = lb._size
      if s1 < s0:
        if force:
          self.flags.add('jitter_contract')
        if s1 < min(a['min_size'], members):
          self.viol('C06', 'below-min-size', 'contraction %d -> %d with min_size %d and %d members' % (s0, s1, a['min_size'], members))
      return r

    orig_try_expand = lb._TryExpandAperture
    self.expanded = set()      # channels that entered the aperture through an expansion (not through a join)

    def try_expand(*a, **k):
      before = set(n.channel for n in lb._heap[1:])
      r = orig_try_expand(*a, **k)
      added = [n for n in lb._heap[1:] if n.channel not in before]
      self.expanded.update(n.channel for n in added)
      if (a and a[0]) or k.get('leave_pending'):
        # a jitter round has just pulled a member in: if the plan asked for it, an older active member leaves the
        # server set now, i.e. while the newcomer is still connecting
        want = self.leave_in_next_jitter
        olds = sorted(n.endpoint.port for n in lb._heap[1:] if n.channel in before and n.endpoint.port in self.ssp.members)
        if want is not None and added and olds:
          self.leave_in_next_jitter = None
          self.flags.add('member_left_during_jitter_round')
          self.op_leave(olds[want % len(olds)] - PORT0)
      return r

    lb._AdjustAperture = adjust
    lb._ContractAperture = contract
    lb._TryExpandAperture = try_expand
    # wall clock as the aperture's smoothing sees it: virtual time plus a skew that an op may step backwards
    import scales.varz as _varz
    run = self
    real_time_mod = _varz.time

    class _SkewedTime(object):
      def time(self_):
        return loop.now() + run.clock_skew

      def __getattr__(self_, name):
        return getattr(real_time_mod, name)
    _varz.time = _SkewedTime()
    self.world.cleanups.append(lambda: setattr(_varz, 'time', real_time_mod))
    self.n_adjust = 0
    self.load_samples = {'first': None, 'lo': 0, 'hi': 0, 'n': 0, 'minq': collections.deque(), 'maxq': collections.deque()}

  def check_gauges(self):
    lb = self.lb
    act, idl = self.gauge('active'), self.gauge('idle')
    if act is not None and act != len(lb._heap) - 1:
      self.viol('C06', 'gauge-active', 'gauge active=%r, heap holds %d members' % (act, len(lb._heap) - 1))
    if idl is not None and idl != len(lb._idle_endpoints):
      self.viol('C06', 'gauge-idle', 'gauge idle=%r, idle set has %d members' % (idl, len(lb._idle_endpoints)))
    if lb._size != len(lb._heap) - 1:
      self.viol('C06', 'size-mismatch', 'size %d but heap holds %d' % (lb._size, len(lb._heap) - 1))

  def op_steady(self, c, rate, duration):
    from gevent.event import Event
    lb = self.lb
    a = self.cfg['aperture']
    for ch in self.live_channels().values():
      if not ch.close_steps:
        ch._state = ChannelState.Open
    if loop.now() < self.freeze_until:
      advance(self.freeze_until - loop.now())      # the smoothing clock is frozen after a backwards step: let it catch up first
    base = len(self.outstanding_reqs())
    self.service_time = 1.0 / rate
    stop = [False]

    def caller():
      while not stop[0]:
        r = self.dispatch_raw()
        if r.completions:
          gevent.sleep(0.1)      # failed at once (no members): a caller that retries after a pause
        else:
          r.done = Event()
          r.done.wait()

    self.steady = {'level': base + c, 'start': loop.now(), 'sizes': [], 'changes': [], 'checked': 0}
    callers = [gevent.spawn(caller) for _ in range(c)]
    advance(duration)
    st = self.steady
    self.steady = None      # the wind-down below is not steady traffic
    stop[0] = True
    self.raise_pending()
    self.flags.add('steady')
    # settling
    lvl = st['level']
    members = len(lb._servers)
    cap = min(a['max_size'], members)

    def stable(sz, m):
      exp = (lvl / float(sz) >= a['max_load'] * (1 - m)) and sz < cap
      con = ((lvl - 1) / float(sz) <= a['min_load'] * (1 + m)) and sz > a['min_size']
      return not exp and not con
    sizes_possible = range(min(a['min_size'], members), max(cap, min(a['min_size'], members)) + 1)
    robust = [z for z in sizes_possible if z > 0 and stable(z, 0.08)]
    tail = [z for (t, z) in st['sizes'] if t >= st['start'] + duration - 10.0]
    if robust and duration >= 40.0 and tail and members > 0:
      self.flags.add('settling_checked')
      late = [c for c in st['changes'] if c[0] >= st['start'] + duration - 10.0]

      def must_move(sz):
        # the smoothed load reads between lvl-1 and lvl: a size must move only if it would for every value in that range
        up = ((lvl - 1) / float(sz) >= a['max_load'] * 1.08) and sz < cap
        down = (lvl / float(sz) <= a['min_load'] * 0.92) and sz > a['min_size']
        return up or down
      overdue = [c for c in late if c[1] > 0 and must_move(c[1])]
      if overdue:
        self.viol('C06', 'not-settled', 'level %d held for %.0f s, stable sizes %r exist, but a size that had to change for any smoothed load in [%d, %d] only changed in the last 10 s: %r' % (
            lvl, duration, robust, lvl - 1, lvl, [(round(t - st['start'], 2), x, y) for t, x, y in overdue[:6]]))
      zf = tail[-1]
      if a.get('jitter_min', 0):
        zf = None     # a jitter round may be in progress: the momentary size says nothing
      # the smoothed load reads between lvl-1 and lvl: only a size that must move for every value in that range is wrong
      must_expand = zf and ((lvl - 1) / float(zf) >= a['max_load'] * 1.08) and zf < cap
      must_contract = zf and (lvl / float(zf) <= a['min_load'] * 0.92) and zf > a['min_size']
      if must_expand or must_contract:
        self.viol('C06', 'settled-outside-band', 'level %d held for %.0f s: final size %d is neither inside the band (%r..%r) nor pinned (stable sizes %r)' % (
            lvl, duration, zf, a['min_load'], a['max_load'], robust))
    stop[0] = True
    advance(2.5 * self.service_time + 0.01)
    self.service_time = None
    self.steady = None
    for g in callers:
      g.kill(block=False)
    settle()

  def dispatch_raw(self):
    self.state_reads = 0
    rid = len(self.reqs)
    r = Req(rid, self.step)
    r.run = self
    self.reqs.append(r)
    st = ClientMessageSinkStack()
    st.Push(Terminal(), r)
    msg = MethodCallMessage(None, 'm', (rid,), {})
    msg.properties['__vf_req'] = r
    msg.properties[MessageProperties.Endpoint] = None
    r.stack, r.msg = st, msg
    self.lb.AsyncProcessRequest(st, msg, None, {})
    return r

  # --- helpers
  def viol(self, prop, key, detail):
    if prop == self.prop:
      v = Violation(prop, key, '%s (step %d: %r)' % (detail, self.step, self.cur_op))
      if gevent.getcurrent() is not MAIN and self.pending_violation is None:
        # raised inside a balancer greenlet: hand it to the harness greenlet
        self.pending_violation = v
      raise v

  def raised(self, what, e):
    """The balancer raised on a valid operation: whatever it was doing (returning load, picking a member,
    updating membership) did not happen."""
    if isinstance(e, Violation):
      raise e
    if isinstance(e, HandlerBoom):
      self.flags.add('response_handler_raised')      # the caller's own handler failed on the answer: not the balancer's doing
      return
    import traceback
    where = traceback.extract_tb(e.__traceback__)[-1]
    detail = 'balancer raised %r while %s (%s:%d)' % (e, what, where.filename.rsplit('/', 1)[-1], where.lineno)
    for prop in ('C03', 'C04', 'C05', 'C06'):
      self.viol(prop, 'balancer-raised', detail)

  def raise_pending(self):
    if self.pending_violation is not None:
      raise self.pending_violation

  def model_members(self):
    return set(self.ssp.members)

  def nodes(self):
    return self.lb._heap[1:]

  def live_channels(self):
    return dict((n.endpoint.port, n.channel) for n in self.nodes())

  def outstanding_reqs(self):
    return [r for r in self.reqs if r.channel is not None and not r.completions]

  def scan_log(self):
    recs = self.world.log.records
    for name, lvl, msg, t in recs[self._log_pos:]:
      if msg.startswith('Marking node ') and msg.endswith(' down'):
        self.marked_down.add(msg[len('Marking node '):-len(' down')])
      elif msg.startswith('Marking node ') and msg.endswith(' up'):
        self.marked_down.discard(msg[len('Marking node '):-len(' up')])
      elif 'Decrementing load below Zero' in msg:
        self.viol('C04', 'load-below-zero', 'balancer logged "Decrementing load below Zero"')
    self._log_pos = len(recs)

  def account_completions(self):
    """Model side: a request is complete when its terminal sink saw a message."""
    for r in self.reqs:
      if r.completions and not r.accounted and r.channel is not None:
        r.accounted = True
        r.channel.outstanding -= 1
        ch = r.channel
        if ch.removed_at is not None and ch.outstanding == 0:
          ch.drained_at = self.step
      if len(r.completions) > 1:
        self.viol('C04', 'double-completion', 'request %d completed %d times' % (r.id, len(r.completions)))

  def is_open(self):
    return self.open_ar.ready()

  # --- ops
  def op_dispatch(self, handler_raises=False):
    rid = len(self.reqs)
    r = Req(rid, self.step)
    r.run = self
    self.state_reads = 0
    r.handler_raises = handler_raises
    self.reqs.append(r)
    st = ClientMessageSinkStack()
    st.Push(Terminal(), r)
    msg = MethodCallMessage(None, 'm', (rid,), {})
    msg.properties['__vf_req'] = r
    msg.properties[MessageProperties.Endpoint] = None
    # what the timeout sink above the balancer puts on every call that has a deadline
    msg.properties[Deadline.EVENT_KEY] = Observable()
    r.stack, r.msg = st, msg
    was_open = self.is_open()
    members = self.model_members()
    before = dict((ch, ch.outstanding) for ch in self.chans.created)
    self.selection = None
    open_before = set(n.channel for n in self.nodes() if n.channel.state == ChannelState.Open)
    try:
      self.lb.AsyncProcessRequest(st, msg, None, {})
    except Violation:
      raise
    except HandlerBoom:
      # the member answered on the spot and the caller's own handler failed on that answer: the caller's business
      self.flags.add('response_handler_raised_during_dispatch')
    except Exception as e:
      self.raised('dispatching a request', e)
    if was_open and self.prop == 'C04':
      # selecting a member re-examines every member that is marked down: one whose channel is Open is marked up
      # again, so "already marked down" at a later removal can only be said of a member that really is down
      for n in self.nodes():
        if n.load >= 0 and n.channel in open_before and n.channel.state == ChannelState.Open:
          self.flags.add('stale_down_mark')
          self.viol('C04', 'stale-down-mark', '%r is Open and a request was just dispatched, yet the balancer still treats it as marked down (load %d)' % (
              n.channel, n.load))
    if not was_open:
      self.flags.add('dispatch_before_open')
      return
    self.check_dispatch(r, members, before)

  def check_dispatch(self, r, members, before):
    self.scan_log()
    ep = r.msg.properties.get(MessageProperties.Endpoint)
    if not members:
      if not r.completions or not isinstance(r.completions[0][1].error, NoMembersError) or r.channel is not None:
        self.viol('C03', 'no-members-not-failed', 'no members, yet the request did not fail at once with NoMembersError')
      return
    if r.channel is None:
      if r.completions and isinstance(r.completions[0][1].error, NoMembersError):
        # the balancer is using no member although the server set has some
        self.viol('C05', 'member-not-eligible', 'server set has %d members but the balancer reports no members' % len(members))
        self.viol('C03', 'no-members-with-members', 'NoMembersError although the server set has %d members' % len(members))
      else:
        self.viol('C03', 'not-dispatched', 'request reached no member channel')
      return
    ch = r.channel
    if ep is None or ep.port != ch.port:
      self.viol('C03', 'endpoint-stamp', 'message stamped %r but channel %r received it' % (ep, ch))
    if ch.port not in members or ch.removed_at is not None:
      self.viol('C04', 'dispatch-to-removed', 'request sent to %r which left the server set at step %r' % (ch, ch.removed_at))
      self.viol('C05', 'departed-eligible', 'request sent to %r which is not in the server set' % (ch,))
    sel = self.selection
    if sel is None:
      raise HarnessError('no selection snapshot')
    in_use = [(c, s) for (e, c, s) in sel]
    if ch not in [c for c, s in in_use]:
      self.viol('C03', 'chosen-not-in-use', '%r chosen but not in the set in use' % ch)
      return
    open_now = [c for c, s in in_use if s == ChannelState.Open]
    chosen_state = dict(in_use)[ch]
    if open_now:
      if chosen_state != ChannelState.Open:
        self.viol('C03', 'chose-not-open', '%r (state %r) chosen while %r are open' % (ch, chosen_state, open_now))
      else:
        least = min(before.get(c, 0) for c in open_now)
        if before.get(ch, 0) != least:
          self.viol('C03', 'not-least-loaded', '%r with %d outstanding chosen; open members have %r' % (
              ch, before.get(ch, 0), sorted((c.port, before.get(c, 0)) for c in open_now)))
        levels = set(before.get(c, 0) for c in open_now)
        if len(levels) >= 2:
          self.flags.add('two_load_levels')
    else:
      self.flags.add('none_open')

  def op_complete(self, i, kind):
    out = self.outstanding_reqs()
    if not out:
      return
    r = out[i % len(out)]
    if r is not out[0]:
      self.flags.add('out_of_order_completion')
    if kind == 'error':
      m = MethodReturnMessage(error=Exception('server error'))
    else:
      m = MethodReturnMessage('ok')
    if kind == 'reply_chain' and self.is_open():
      def chained():
        self.account_completions()
        self.flags.add('dispatch_from_response_path')
        self.op_dispatch()
      r.on_done = chained
    if r.channel.removed_at is not None:
      self.flags.add('completion_on_removed')
    if kind == 'reply_raises':
      r.handler_raises = True
    try:
      r.stack.AsyncProcessResponseMessage(m)
    except Violation:
      raise
    except HandlerBoom:
      self.flags.add('response_handler_raised')
    except Exception as e:
      self.raised('completing request %d on %r' % (r.id, r.channel), e)

  def op_expire_parked(self, i):
    """The deadline of a call that is still parked in the balancer (dispatched before it had opened) passes: the timeout
    sink signals the call's event and hands its caller TimeoutError."""
    parked = [r for r in self.reqs if r.channel is None and not r.completions and Deadline.EVENT_KEY in r.msg.properties]
    if not parked or self.is_open():
      return
    r = parked[i % len(parked)]
    self.flags.add('parked_call_timed_out')
    r.timed_out_parked = True
    r.msg.properties[Deadline.EVENT_KEY].Set(True)
    try:
      r.stack.AsyncProcessResponseMessage(MethodReturnMessage(error=TimeoutError()))
    except Violation:
      raise
    except Exception as e:
      self.raised('timing out parked request %d' % r.id, e)

  def op_dup(self, i):
    done = [r for r in self.reqs if r.completions and r.channel is not None]
    if not done:
      return
    r = done[i % len(done)]
    self.flags.add('late_duplicate')
    r.stack.AsyncProcessResponseMessage(MethodReturnMessage('late'))

  def _member_channel(self, pi):
    live = self.live_channels()
    if not live:
      return None
    ports = sorted(live)
    return live[ports[pi % len(ports)]]

  def op_down(self, pi, fault):
    ch = self._member_channel(pi)
    if ch is None:
      return
    ch._state = ChannelState.Closed
    self.flags.add('down')
    if fault:
      ch.on_faulted.Set(Exception('fault'))

  def op_up(self, pi):
    ch = self._member_channel(pi)
    if ch is None:
      return
    if ch._state == ChannelState.Closed and not ch.close_steps:
      ch._state = ChannelState.Open
      self.flags.add('up')

  def op_join(self, pi):
    port = PORT0 + pi % self.nports
    if port in self.ssp.members:
      self.flags.add('duplicate_join')
    elif any(c.port == port for c in self.chans.created):
      self.flags.add('rejoin')
    if not self.lb_init_done():
      self.flags.add('notification_before_init')
    self.ssp.event('join', port)

  def op_leave(self, pi):
    port = PORT0 + pi % self.nports
    if port not in self.ssp.members:
      self.flags.add('unknown_leave')
    else:
      live = self.live_channels()
      ch = live.get(port)
      if ch is not None:
        if ch.outstanding > 0:
          self.flags.add('leave_loaded')
        elif any(n.channel is ch and n.load >= 0 for n in self.nodes()):
          self.flags.add('leave_down')
        else:
          self.flags.add('leave_idle')
    if not self.lb_init_done():
      self.flags.add('notification_before_init')
    self.ssp.event('leave', port)

  def lb_init_done(self):
    return self.lb._LoadBalancerSink__init_done.is_set()

  # --- invariants
  def after_step(self):
    self.raise_pending()
    self.scan_log()
    self.account_completions()
    lb = self.lb
    # heap order is read for diagnosis / search guidance only, never reported
    h = lb._heap
    inv = 0
    for i in range(2, len(h)):
      if h[i] < h[i // 2]:
        inv += 1
    if inv > self.max_inversions:
      self.max_inversions = inv
    # channels whose endpoint is gone from the balancer
    live = set(n.channel for n in self.nodes())
    members = self.model_members()
    if self.prop == 'C04':
      self.check_conservation()
      self.check_removal(live, members)
    if self.prop in ('C05', 'C06') and self.lb_init_done() and self.ssp.q.empty():
      self.check_membership(members)
    if self.prop == 'C06' and self.kind == 'aperture':
      self.check_gauges()

  def check_conservation(self):
    lb = self.lb
    for n in self.nodes():
      if n.load >= 0:
        load = n.load - lb.Penalty - lb.Idle
      else:
        load = n.load - lb.Idle
      if load != n.channel.outstanding or load < 0:
        self.viol('C04', 'load-mismatch', 'balancer attributes load %d to %r, %d requests are outstanding on it' % (
            load, n.channel, n.channel.outstanding))
    if self.kind == 'aperture':
      total = sum(c.outstanding for c in self.chans.created)
      if lb._total != total:
        self.viol('C04', 'total-mismatch', 'aperture total %d, outstanding %d' % (lb._total, total))

  def check_removal(self, live, members):
    for ch in self.chans.created:
      if ch.removed_at is None:
        continue
      closes = ch.close_steps
      if len(closes) > 1:
        self.viol('C04', 'closed-twice', '%r closed at steps %r' % (ch, closes))
      due = ch.close_due
      if due == 'now':
        want = ch.removed_at
      elif ch.outstanding == 0:
        want = getattr(ch, 'drained_at', None)
      else:
        want = None
      if want is None:
        if closes:
          self.viol('C04', 'closed-early', '%r closed at step %d with %d requests outstanding (removed while loaded and up)' % (
              ch, closes[0], ch.outstanding))
      elif not closes:
        if self.step >= want:
          self.viol('C04', 'not-closed', '%r removed at step %d should have been closed at step %d' % (ch, ch.removed_at, want))
      elif closes[0] != want:
        self.viol('C04', 'closed-at-wrong-step', '%r closed at step %d, expected step %d' % (ch, closes[0], want))

  def note_removals(self, before_live):
    """Called right after a leave was delivered: mark channels that left."""
    members = self.model_members()
    for port, ch in before_live.items():
      if port not in members and ch.removed_at is None:
        ch.removed_at = self.step
        idle = ch.outstanding == 0
        down = ch in self.down_before
        ch.close_due = 'now' if (idle or down) else 'drain'
        self.marked_down.discard(str(ch.endpoint))
        if ch.outstanding == 0:
          ch.drained_at = self.step

  def check_membership(self, members):
    lb = self.lb
    servers = set(ep.port for ep in lb._servers)
    if servers != members:
      self.viol('C05', 'servers-mismatch', 'balancer knows %r, server set is %r' % (sorted(servers), sorted(members)))
    heap_ports = [n.endpoint.port for n in self.nodes()]
    if len(set(heap_ports)) != len(heap_ports):
      self.viol('C05', 'duplicate-node', 'endpoint twice in the heap: %r' % (heap_ports,))
    if self.kind == 'heap':
      if set(heap_ports) != members:
        self.viol('C05', 'heap-mismatch', 'heap holds %r, server set is %r' % (sorted(heap_ports), sorted(members)))
    else:
      idle = set(ep.port for ep in lb._idle_endpoints)
      if idle & set(heap_ports):
        self.viol('C05', 'partition-overlap', 'endpoints %r both active and idle' % sorted(idle & set(heap_ports)))
        self.viol('C06', 'partition-overlap', 'endpoints %r both active and idle' % sorted(idle & set(heap_ports)))
      if idle | set(heap_ports) != members:
        self.viol('C05', 'partition-mismatch', 'active %r + idle %r != server set %r' % (sorted(heap_ports), sorted(idle), sorted(members)))
        self.viol('C06', 'partition-mismatch', 'active %r + idle %r != server set %r' % (sorted(heap_ports), sorted(idle), sorted(members)))
      a = self.cfg['aperture']
      if len(heap_ports) < min(a['min_size'], len(members)) and idle:
        # whatever shrank the active set (contraction, a member leaving or failing), idle members were there to take its place
        self.viol('C06', 'active-below-min', '%d active, %d idle, min_size %d, %d members' % (len(heap_ports), len(idle), a['min_size'], len(members)))

  # --- interpreter
  def run_ops(self):
    for self.step, op in enumerate(self.plan['ops']):
      self.cur_op = op
      k = op[0]
      self.state_reads = 0
      if k == 'dispatch':
        self.op_dispatch(handler_raises=(len(op) > 1 and op[1] == 'handler_raises'))
      elif k == 'complete':
        self.op_complete(op[1], op[2])
      elif k == 'dup':
        self.op_dup(op[1])
      elif k == 'expire_parked':
        self.op_expire_parked(op[1])
      elif k == 'down':
        self.op_down(op[1], op[2])
      elif k == 'up':
        self.op_up(op[1])
      elif k in ('join', 'leave'):
        before_live = self.live_channels()
        self.scan_log()
        self.down_before = set(n.channel for n in self.nodes() if n.load >= 0)
        (self.op_join if k == 'join' else self.op_leave)(op[1])
        settle()
        if self.lb_init_done() and self.ssp.q.empty():
          self.note_removals(before_live)
      elif k == 'leave_all':
        # the whole server set goes away at once (every member leaves, loaded or not)
        before_live = self.live_channels()
        self.scan_log()
        self.down_before = set(n.channel for n in self.nodes() if n.load >= 0)
        for port in list(self.ssp.members):
          self.op_leave(port - PORT0)
        self.flags.add('all_members_left')
        settle()
        if self.lb_init_done() and self.ssp.q.empty():
          self.note_removals(before_live)
      elif k == 'flap_pending':
        # a server that flaps while the client is still connecting to it (generator guidance only: the endpoint is
        # picked from the aperture's in-flight expansions; the oracle never looks at that set)
        pend = sorted(getattr(self.lb, '_pending_endpoints', ()) or (), key=lambda e: e.port)
        pend = [e for e in pend if e.port in self.ssp.members]
        if pend and self.lb_init_done():
          pi = pend[op[1] % len(pend)].port - PORT0
          before_live = self.live_channels()
          self.down_before = set(n.channel for n in self.nodes() if n.load >= 0)
          self.op_leave(pi)
          self.op_join(pi)
          self.flags.add('flap_while_connecting')
          settle()
          if self.lb_init_done() and self.ssp.q.empty():
            self.note_removals(before_live)
      elif k == 'advance':
        advance(op[1] / 1000.0)
      elif k == 'leave_in_jitter':
        self.leave_in_next_jitter = op[1]
      elif k == 'clock_back':
        # the wall clock steps backwards (NTP correction, VM resume); time itself goes on
        self.clock_skew -= op[1]
        self.back_total += op[1]
        self.freeze_until = max(self.freeze_until, loop.now()) + op[1]
        self.window_incomplete_until = loop.now() + self.back_total
        self.flags.add('clock_stepped_back')
      elif k == 'steady':
        self.op_steady(op[1], op[2], op[3])
      else:
        raise HarnessError('unknown op %r' % (op,))
      settle()
      self.after_step()
