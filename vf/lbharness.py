"""Harness for the load-balancer properties (C03, C04, C05, C06).

A plan ({"config": ..., "ops": [...]}) is interpreted against a real
HeapBalancerSink / ApertureBalancerSink built from its Builder over harness
channels and a harness server-set provider, next to a reference model.
"""
import gevent
from gevent.queue import Queue

from vf.world import Violation, HarnessError, settle, advance
from vf.boot import loop

from scales.asynchronous import AsyncResult
from scales.constants import ChannelState, MessageProperties, SinkProperties
from scales.core import ScalesUriParser
from scales.loadbalancer.base import NoMembersError
from scales.loadbalancer.heap import HeapBalancerSink
from scales.loadbalancer.aperture import ApertureBalancerSink
from scales.loadbalancer.serverset import ServerSetProvider
from scales.message import MethodCallMessage, MethodReturnMessage
from scales.observable import Observable
from scales.sink import ClientMessageSink, ClientMessageSinkStack, SinkProviderBase
from scales.varz import VarzReceiver

PORT0 = 9000
HOST = 'h'


def mk_server(port):
  return ScalesUriParser.Server(ScalesUriParser.Endpoint(HOST, port))


class Channel(ClientMessageSink):
  """A member channel owned by the harness."""

  def __init__(self, run, endpoint, gen, open_delay, open_fail):
    ClientMessageSink.__init__(self)
    self.run = run
    self.endpoint = endpoint
    self.port = endpoint.port
    self.gen = gen
    self._state = ChannelState.Idle
    self.open_delay = open_delay
    self.open_fail = open_fail
    self.open_calls = 0
    self.close_steps = []
    self.requests = []
    self._open_ar = None
    self.outstanding = 0      # model: dispatched to this channel and not completed
    self.removed_at = None    # step at which its endpoint left the server set

  def __repr__(self):
    return 'ch(%d#%d)' % (self.port, self.gen)

  @property
  def state(self):
    return self._state

  def Open(self):
    self.open_calls += 1
    if self._open_ar is None:
      ar = self._open_ar = AsyncResult()

      def impl():
        if self.open_delay:
          gevent.sleep(self.open_delay)
        if self.open_fail:
          if self._state == ChannelState.Idle:
            self._state = ChannelState.Closed
          ar.set_exception(Exception('open failed %r' % self))
        else:
          if self._state == ChannelState.Idle:
            self._state = ChannelState.Open
          ar.set(True)
      if self.open_delay:
        gevent.spawn(impl)
      else:
        impl()
    return self._open_ar

  def Close(self):
    self.close_steps.append(self.run.step)
    self._state = ChannelState.Closed
    self._open_ar = None

  def AsyncProcessRequest(self, sink_stack, msg, stream, headers):
    req = msg.properties.get('__vf_req')
    self.requests.append(req)
    if req is not None:
      req.channel = self
      self.outstanding += 1
    if self._state == ChannelState.Closed and self.run.sync_fail:
      sink_stack.AsyncProcessResponseMessage(MethodReturnMessage(error=Exception('channel closed')))

  def AsyncProcessResponse(self, sink_stack, context, stream, msg):
    raise HarnessError('channel got a response')


class ChannelProvider(SinkProviderBase):
  def __init__(self, run):
    SinkProviderBase.__init__(self)
    self.run = run
    self.created = []

  def CreateSink(self, properties):
    ep = properties[SinkProperties.Endpoint]
    n = len(self.created)
    cfg = self.run.cfg
    delays = cfg.get('open_delay_ms') or [0]
    fails = cfg.get('open_fail') or [False]
    ch = Channel(self.run, ep, n, delays[n % len(delays)] / 1000.0, fails[n % len(fails)])
    self.created.append(ch)
    return ch

  @property
  def sink_class(self):
    return Channel


class HSSP(ServerSetProvider):
  """Server-set provider with a single serial notifier greenlet."""

  def __init__(self, run, initial, getservers_delay):
    self.run = run
    self.members = list(initial)     # ports, ordered
    self.delay = getservers_delay
    self.on_join = None
    self.on_leave = None
    self.q = Queue()
    self.closed = 0
    self.notifier = None
    self.delivered_before_init = 0

  def Initialize(self, on_join, on_leave):
    self.on_join = on_join
    self.on_leave = on_leave
    if self.notifier is None:
      self.notifier = gevent.spawn(self._notify)

  def _notify(self):
    while True:
      kind, port = self.q.get()
      fn = self.on_join if kind == 'join' else self.on_leave
      fn(mk_server(port))

  def GetServers(self):
    snap = [mk_server(p) for p in self.members]
    if self.delay:
      gevent.sleep(self.delay)
    return snap

  def Close(self):
    self.closed += 1

  def event(self, kind, port):
    if kind == 'join':
      if port not in self.members:
        self.members.append(port)
    else:
      if port in self.members:
        self.members.remove(port)
    if self.on_join is not None:
      self.q.put((kind, port))


class Terminal(ClientMessageSink):
  def AsyncProcessRequest(self, *a):
    raise HarnessError('terminal')

  def AsyncProcessResponse(self, sink_stack, context, stream, msg):
    context.completions.append((loop.now(), msg))


class Req(object):
  def __init__(self, rid, step):
    self.id = rid
    self.step = step
    self.completions = []
    self.channel = None
    self.stack = None
    self.msg = None
    self.accounted = False     # model decremented the channel's outstanding


class LBRun(object):
  def __init__(self, plan, prop):
    self.plan = plan
    self.prop = prop
    self.cfg = plan['config']
    self.sync_fail = bool(self.cfg.get('sync_fail'))
    self.step = -1
    self.reqs = []
    self.flags = set()
    self.kind = self.cfg['balancer']
    self.marked_down = set()     # endpoint strings, from the balancer's log
    self._log_pos = 0
    self.selection = None
    self.nports = self.cfg.get('nports', 9)
    self.max_inversions = 0

  # --- construction
  def build(self, world):
    self.world = world
    cfg = self.cfg
    initial = [PORT0 + i for i in cfg['initial']]
    self.ssp = HSSP(self, initial, cfg.get('getservers_delay_ms', 0) / 1000.0)
    self.chans = ChannelProvider(self)
    if self.kind == 'heap':
      prov = HeapBalancerSink.Builder(server_set_provider=self.ssp)
    else:
      a = cfg['aperture']
      prov = ApertureBalancerSink.Builder(
          server_set_provider=self.ssp, min_size=a['min_size'], max_size=a['max_size'],
          min_load=a['min_load'], max_load=a['max_load'],
          jitter_min_sec=a.get('jitter_min', 0), jitter_max_sec=a.get('jitter_max', 0))
    prov.next_provider = self.chans
    self.lb = prov.CreateSink({SinkProperties.Label: 'svc'})
    lb = self.lb
    orig_on_get = lb._OnGet

    def on_get(node):
      # membership of the set "in use" at the moment of selection
      self.selection = [(n.endpoint, n.channel, n.channel.state) for n in lb._heap[1:]]
      return orig_on_get(node)
    lb._OnGet = on_get
    self.open_ar = lb.Open()

  # --- helpers
  def viol(self, prop, key, detail):
    if prop == self.prop:
      raise Violation(prop, key, '%s (step %d: %r)' % (detail, self.step, self.cur_op))

  def model_members(self):
    return set(self.ssp.members)

  def nodes(self):
    return self.lb._heap[1:]

  def live_channels(self):
    return dict((n.endpoint.port, n.channel) for n in self.nodes())

  def outstanding_reqs(self):
    return [r for r in self.reqs if r.channel is not None and not r.completions]

  def scan_log(self):
    recs = self.world.log.records
    for name, lvl, msg, t in recs[self._log_pos:]:
      if msg.startswith('Marking node ') and msg.endswith(' down'):
        self.marked_down.add(msg[len('Marking node '):-len(' down')])
      elif msg.startswith('Marking node ') and msg.endswith(' up'):
        self.marked_down.discard(msg[len('Marking node '):-len(' up')])
      elif 'Decrementing load below Zero' in msg:
        self.viol('C04', 'load-below-zero', 'balancer logged "Decrementing load below Zero"')
    self._log_pos = len(recs)

  def account_completions(self):
    """Model side: a request is complete when its terminal sink saw a message."""
    for r in self.reqs:
      if r.completions and not r.accounted and r.channel is not None:
        r.accounted = True
        r.channel.outstanding -= 1
        ch = r.channel
        if ch.removed_at is not None and ch.outstanding == 0:
          ch.drained_at = self.step
      if len(r.completions) > 1:
        self.viol('C04', 'double-completion', 'request %d completed %d times' % (r.id, len(r.completions)))

  def is_open(self):
    return self.open_ar.ready()

  # --- ops
  def op_dispatch(self):
    rid = len(self.reqs)
    r = Req(rid, self.step)
    self.reqs.append(r)
    st = ClientMessageSinkStack()
    st.Push(Terminal(), r)
    msg = MethodCallMessage(None, 'm', (rid,), {})
    msg.properties['__vf_req'] = r
    msg.properties[MessageProperties.Endpoint] = None
    r.stack, r.msg = st, msg
    was_open = self.is_open()
    members = self.model_members()
    before = dict((ch, ch.outstanding) for ch in self.chans.created)
    self.selection = None
    self.lb.AsyncProcessRequest(st, msg, None, {})
    if not was_open:
      self.flags.add('dispatch_before_open')
      return
    self.check_dispatch(r, members, before)

  def check_dispatch(self, r, members, before):
    self.scan_log()
    ep = r.msg.properties.get(MessageProperties.Endpoint)
    if not members:
      if not r.completions or not isinstance(r.completions[0][1].error, NoMembersError) or r.channel is not None:
        self.viol('C03', 'no-members-not-failed', 'no members, yet the request did not fail at once with NoMembersError')
      return
    if r.channel is None:
      if r.completions and isinstance(r.completions[0][1].error, NoMembersError):
        # the balancer is using no member although the server set has some
        self.viol('C05', 'member-not-eligible', 'server set has %d members but the balancer reports no members' % len(members))
        self.viol('C03', 'no-members-with-members', 'NoMembersError although the server set has %d members' % len(members))
      else:
        self.viol('C03', 'not-dispatched', 'request reached no member channel')
      return
    ch = r.channel
    if ep is None or ep.port != ch.port:
      self.viol('C03', 'endpoint-stamp', 'message stamped %r but channel %r received it' % (ep, ch))
    if ch.port not in members or ch.removed_at is not None:
      self.viol('C04', 'dispatch-to-removed', 'request sent to %r which left the server set at step %r' % (ch, ch.removed_at))
      self.viol('C05', 'departed-eligible', 'request sent to %r which is not in the server set' % (ch,))
    sel = self.selection
    if sel is None:
      raise HarnessError('no selection snapshot')
    in_use = [(c, s) for (e, c, s) in sel]
    if ch not in [c for c, s in in_use]:
      self.viol('C03', 'chosen-not-in-use', '%r chosen but not in the set in use' % ch)
      return
    open_now = [c for c, s in in_use if s == ChannelState.Open]
    chosen_state = dict(in_use)[ch]
    if open_now:
      if chosen_state != ChannelState.Open:
        self.viol('C03', 'chose-not-open', '%r (state %r) chosen while %r are open' % (ch, chosen_state, open_now))
      else:
        least = min(before.get(c, 0) for c in open_now)
        if before.get(ch, 0) != least:
          self.viol('C03', 'not-least-loaded', '%r with %d outstanding chosen; open members have %r' % (
              ch, before.get(ch, 0), sorted((c.port, before.get(c, 0)) for c in open_now)))
        levels = set(before.get(c, 0) for c in open_now)
        if len(levels) >= 2:
          self.flags.add('two_load_levels')
    else:
      self.flags.add('none_open')

  def op_complete(self, i, kind):
    out = self.outstanding_reqs()
    if not out:
      return
    r = out[i % len(out)]
    if r is not out[0]:
      self.flags.add('out_of_order_completion')
    if kind == 'error':
      m = MethodReturnMessage(error=Exception('server error'))
    else:
      m = MethodReturnMessage('ok')
    if r.channel.removed_at is not None:
      self.flags.add('completion_on_removed')
    r.stack.AsyncProcessResponseMessage(m)

  def op_dup(self, i):
    done = [r for r in self.reqs if r.completions and r.channel is not None]
    if not done:
      return
    r = done[i % len(done)]
    self.flags.add('late_duplicate')
    r.stack.AsyncProcessResponseMessage(MethodReturnMessage('late'))

  def _member_channel(self, pi):
    live = self.live_channels()
    if not live:
      return None
    ports = sorted(live)
    return live[ports[pi % len(ports)]]

  def op_down(self, pi, fault):
    ch = self._member_channel(pi)
    if ch is None:
      return
    ch._state = ChannelState.Closed
    self.flags.add('down')
    if fault:
      ch.on_faulted.Set(Exception('fault'))

  def op_up(self, pi):
    ch = self._member_channel(pi)
    if ch is None:
      return
    if ch._state == ChannelState.Closed and not ch.close_steps:
      ch._state = ChannelState.Open
      self.flags.add('up')

  def op_join(self, pi):
    port = PORT0 + pi % self.nports
    if port in self.ssp.members:
      self.flags.add('duplicate_join')
    elif any(c.port == port for c in self.chans.created):
      self.flags.add('rejoin')
    if not self.lb_init_done():
      self.flags.add('notification_before_init')
    self.ssp.event('join', port)

  def op_leave(self, pi):
    port = PORT0 + pi % self.nports
    if port not in self.ssp.members:
      self.flags.add('unknown_leave')
    else:
      live = self.live_channels()
      ch = live.get(port)
      if ch is not None:
        if ch.outstanding > 0:
          self.flags.add('leave_loaded')
        elif any(n.channel is ch and n.load >= 0 for n in self.nodes()):
          self.flags.add('leave_down')
        else:
          self.flags.add('leave_idle')
    if not self.lb_init_done():
      self.flags.add('notification_before_init')
    self.ssp.event('leave', port)

  def lb_init_done(self):
    return self.lb._LoadBalancerSink__init_done.is_set()

  # --- invariants
  def after_step(self):
    self.scan_log()
    self.account_completions()
    lb = self.lb
    # heap order is read for diagnosis / search guidance only, never reported
    h = lb._heap
    inv = 0
    for i in range(2, len(h)):
      if h[i] < h[i // 2]:
        inv += 1
    if inv > self.max_inversions:
      self.max_inversions = inv
    # channels whose endpoint is gone from the balancer
    live = set(n.channel for n in self.nodes())
    members = self.model_members()
    if self.prop == 'C04':
      self.check_conservation()
      self.check_removal(live, members)
    if self.prop in ('C05', 'C06') and self.lb_init_done() and self.ssp.q.empty():
      self.check_membership(members)

  def check_conservation(self):
    lb = self.lb
    for n in self.nodes():
      if n.load >= 0:
        load = n.load - lb.Penalty - lb.Idle
      else:
        load = n.load - lb.Idle
      if load != n.channel.outstanding or load < 0:
        self.viol('C04', 'load-mismatch', 'balancer attributes load %d to %r, %d requests are outstanding on it' % (
            load, n.channel, n.channel.outstanding))
    if self.kind == 'aperture':
      total = sum(c.outstanding for c in self.chans.created)
      if lb._total != total:
        self.viol('C04', 'total-mismatch', 'aperture total %d, outstanding %d' % (lb._total, total))

  def check_removal(self, live, members):
    for ch in self.chans.created:
      if ch.removed_at is None:
        continue
      closes = ch.close_steps
      if len(closes) > 1:
        self.viol('C04', 'closed-twice', '%r closed at steps %r' % (ch, closes))
      due = ch.close_due
      if due == 'now':
        want = ch.removed_at
      elif ch.outstanding == 0:
        want = getattr(ch, 'drained_at', None)
      else:
        want = None
      if want is None:
        if closes:
          self.viol('C04', 'closed-early', '%r closed at step %d with %d requests outstanding (removed while loaded and up)' % (
              ch, closes[0], ch.outstanding))
      elif not closes:
        if self.step >= want:
          self.viol('C04', 'not-closed', '%r removed at step %d should have been closed at step %d' % (ch, ch.removed_at, want))
      elif closes[0] != want:
        self.viol('C04', 'closed-at-wrong-step', '%r closed at step %d, expected step %d' % (ch, closes[0], want))

  def note_removals(self, before_live):
    """Called right after a leave was delivered: mark channels that left."""
    members = self.model_members()
    for port, ch in before_live.items():
      if port not in members and ch.removed_at is None:
        ch.removed_at = self.step
        idle = ch.outstanding == 0
        down = ch in self.down_before
        ch.close_due = 'now' if (idle or down) else 'drain'
        self.marked_down.discard(str(ch.endpoint))
        if ch.outstanding == 0:
          ch.drained_at = self.step

  def check_membership(self, members):
    lb = self.lb
    servers = set(ep.port for ep in lb._servers)
    if servers != members:
      self.viol('C05', 'servers-mismatch', 'balancer knows %r, server set is %r' % (sorted(servers), sorted(members)))
    heap_ports = [n.endpoint.port for n in self.nodes()]
    if len(set(heap_ports)) != len(heap_ports):
      self.viol('C05', 'duplicate-node', 'endpoint twice in the heap: %r' % (heap_ports,))
    if self.kind == 'heap':
      if set(heap_ports) != members:
        self.viol('C05', 'heap-mismatch', 'heap holds %r, server set is %r' % (sorted(heap_ports), sorted(members)))
    else:
      idle = set(ep.port for ep in lb._idle_endpoints)
      if idle & set(heap_ports):
        self.viol('C05', 'partition-overlap', 'endpoints %r both active and idle' % sorted(idle & set(heap_ports)))
        self.viol('C06', 'partition-overlap', 'endpoints %r both active and idle' % sorted(idle & set(heap_ports)))
      if idle | set(heap_ports) != members:
        self.viol('C05', 'partition-mismatch', 'active %r + idle %r != server set %r' % (sorted(heap_ports), sorted(idle), sorted(members)))
        self.viol('C06', 'partition-mismatch', 'active %r + idle %r != server set %r' % (sorted(heap_ports), sorted(idle), sorted(members)))

  # --- interpreter
  def run_ops(self):
    for self.step, op in enumerate(self.plan['ops']):
      self.cur_op = op
      k = op[0]
      if k == 'dispatch':
        self.op_dispatch()
      elif k == 'complete':
        self.op_complete(op[1], op[2])
      elif k == 'dup':
        self.op_dup(op[1])
      elif k == 'down':
        self.op_down(op[1], op[2])
      elif k == 'up':
        self.op_up(op[1])
      elif k in ('join', 'leave'):
        before_live = self.live_channels()
        self.scan_log()
        self.down_before = set(n.channel for n in self.nodes() if n.load >= 0)
        (self.op_join if k == 'join' else self.op_leave)(op[1])
        settle()
        if self.lb_init_done() and self.ssp.q.empty():
          self.note_removals(before_live)
      elif k == 'advance':
        advance(op[1] / 1000.0)
      else:
        raise HarnessError('unknown op %r' % (op,))
      settle()
      self.after_step()
