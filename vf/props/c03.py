"""C03 - balancer sends each request to a least-loaded open member."""
from hypothesis import strategies as st

from vf.evidence import Outcome
from vf.world import World, Violation, settle, advance
from vf.lbharness import LBRun
from vf.gen import sized_list, weighted

ID = 'C03'
LEVEL = 'exploration'
RULE = ('Hypothesis-generated histories (<= 70 ops) of dispatch / complete(any outstanding request, reply or error) / '
        'late duplicate completion / down(member, with or without fault signal) / up / join / leave / re-join over 1-9 '
        'members, for HeapBalancerSink and ApertureBalancerSink built from their Builders over harness channels (open '
        'immediately, after a delay, or fail; closed channels answer synchronously or not), with the balancer\'s own '
        'random choices seeded from the plan. At every dispatch the endpoint stamped on the message is compared with a '
        'reference model of per-member outstanding counts and channel states (for the aperture: over the members in the '
        'aperture at the moment of selection). Non-trivial = some dispatch was made while open members had at least two '
        'distinct load levels, after at least one out-of-order completion. distinct = distinct non-trivial plans.')
ASSUMPTIONS = [
    'member channels are harness objects with settable state; the set in use is read from the heap at selection time (observe_at allows it)',
    'ties between equally loaded open members may be broken either way',
    'a member whose channel is still opening (state Idle) counts as not open',
]
BUDGET = {
    'quick': {'examples': 2000},
    'thorough': {'examples': 3000, 'shards': 16},
}


def lb_ops(max_ops=100, with_time=False):
  pairs = [
      (9, st.just(['dispatch'])),
      # a call whose own response handler (a sink above the balancer) fails on the answer
      (1, st.just(['dispatch', 'handler_raises'])),
      (5, st.tuples(st.just('complete'), st.integers(0, 40), st.sampled_from(['reply', 'reply', 'error', 'reply_chain', 'reply_raises'])).map(list)),
      (1, st.tuples(st.just('dup'), st.integers(0, 40)).map(list)),
      (1, st.tuples(st.just('down'), st.integers(0, 8), st.booleans()).map(list)),
      (1, st.tuples(st.just('up'), st.integers(0, 8)).map(list)),
      (1, st.tuples(st.just('join'), st.integers(0, 8)).map(list)),
      (1, st.tuples(st.just('leave'), st.integers(0, 8)).map(list)),
      (1, st.just(['leave_all'])),
      # the deadline of a call parked in a balancer that has not opened yet passes
      (1, st.tuples(st.just('expire_parked'), st.integers(0, 5)).map(list)),
  ]
  if with_time:
    pairs.append((1, st.tuples(st.just('advance'), st.sampled_from([1, 10, 100, 1000, 5000])).map(list)))
  def thin(ops):
    # "everybody leaves" is drastic: at most one per history, and only in a third of the histories
    out, seen = [], False
    for op in ops:
      if op[0] == 'leave_all':
        if seen or len(ops) % 3:
          continue
        seen = True
      out.append(op)
    return out
  return sized_list(weighted(*pairs), 0, max_ops).map(thin)



def lb_config(balancers=('heap', 'aperture')):
  aperture = st.fixed_dictionaries({
      'min_size': st.integers(1, 3), 'max_size': st.integers(1, 8),
      'min_load': st.sampled_from([0.2, 0.5, 1.0]), 'max_load': st.sampled_from([2.0, 2.5, 4.0]),
  }).map(lambda a: dict(a, max_size=max(a['max_size'], a['min_size']), max_load=max(a['max_load'], 2.5 * a['min_load'])))
  return st.fixed_dictionaries({
      'balancer': st.sampled_from(list(balancers)),
      'seed': st.integers(0, 2 ** 20),
      'initial': st.one_of(st.lists(st.integers(0, 8), min_size=5, max_size=9, unique=True),
                           st.lists(st.integers(0, 8), min_size=5, max_size=9, unique=True),
                           st.lists(st.integers(0, 8), max_size=9, unique=True)),
      'open_delay_ms': st.one_of(st.just([0]), st.lists(st.sampled_from([0, 0, 1, 5]), min_size=1, max_size=4)),
      'open_fail': st.one_of(st.just([False]), st.lists(st.sampled_from([False, False, False, True]), min_size=1, max_size=5), st.lists(st.sampled_from([False, True]), min_size=1, max_size=3)),
      'sync_fail': st.booleans(),
      'aperture': aperture,
      # the provider names one of the members' additional endpoints (zk://...#name style) or uses the service endpoint
      'endpoint_name': st.sampled_from([None, None, 'aux']),
      # the type of the endpoints the provider hands out: the library's Endpoint class, or a (named) tuple of host and port
      'endpoint_type': st.sampled_from([None, None, None, 'tuple']),
      # what a member's Close() does with requests still in flight: nothing (they complete later), or fail them on the spot
      'close_fails_inflight': st.sampled_from([False, False, True]),
      # 0 = every endpoint once; k > 0 = one endpoint appears twice in the initial list
      'initial_dup': st.sampled_from([0, 0, 0, 1, 2, 5]),
  })


def strategy(tier):
  # thorough: longer histories
  return st.fixed_dictionaries({'config': lb_config(), 'ops': lb_ops(100 if tier == 'quick' else 250)})


def execute(plan, prop=ID):
  with World(seed=plan['config']['seed']) as w:
    run = LBRun(plan, prop)
    run.build(w)
    settle()
    advance(0.02)      # all planned channel opens (<= 5 ms) are done
    cfg = plan['config']
    if not cfg['initial'] and not cfg.get('getservers_delay_ms') and not cfg.get('provider_fail') and not run.open_ar.ready():
      # nothing to connect to: the open is over at once, so that a request is answered (NoMembersError) and not parked
      raise Violation(prop, 'open-never-completes', 'the balancer was opened on an empty server set 20 ms ago and its open result is still pending: every request would be parked')
    run.run_ops()
    flags = run.flags
    try:
      import hypothesis
      hypothesis.target(float(run.max_inversions), label='heap order inversions (diagnosis only)')
    except Exception:
      pass
  nt = None
  if 'two_load_levels' in flags and 'out_of_order_completion' in flags:
    nt = sorted(flags)
  return Outcome(nontrivial=nt, classes=['balancer=' + plan['config']['balancer']] + sorted(flags))
