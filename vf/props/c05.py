"""C05 - balancer membership equals the server set after any join/leave history."""
from hypothesis import strategies as st

from vf.evidence import Outcome
from vf.world import World, settle, advance
from vf.lbharness import LBRun, PORT0
from vf.gen import sized_list, weighted
from vf.props.c03 import lb_config

from scales.constants import ChannelState
from scales.message import MethodReturnMessage

ID = 'C05'
LEVEL = 'exploration'
RULE = ('Hypothesis-generated join / leave histories (duplicate joins, leaves of unknown members, re-joins) over a pool '
        'of 9 endpoints, interleaved with dispatch / complete / down / up / advance (ms, or 1-3 s so that a jitter round of the aperture - half of the aperture configurations have one every 1-2 s - comes and goes) / leave-and-re-join of a member the aperture is just connecting to / the deadline of a call parked in the still unopened balancer passing, against heap and aperture balancers (endpoints of the class of the library or namedtuples; member Close() leaves in-flight requests alone or fails them on the spot) '
        'whose provider returns the initial list after a drawn delay (0-20 ms), in some plans only after one or two failed loads (an IOError, or gevent.Timeout as kazoo raises it; the balancer retries every 5 s) while notifications are being delivered by '
        'a single serial notifier. At every quiescent step after loading: balancer\'s known servers == model server set; '
        'heap endpoints == server set (heap) or active + idle partition == server set (aperture). At the end, for the '
        'heap balancer, a saturating probe (all members up, nothing outstanding, one request per member) must touch '
        'exactly the server set. Non-trivial = history with a duplicate join, an unknown leave and a re-join, or a '
        'notification delivered before loading finished. distinct = distinct non-trivial plans.')
ASSUMPTIONS = [
    'notifications are delivered serially by one greenlet, as the ZooKeeper server set does',
    'the initial list is a snapshot taken when GetServers() is called; later changes arrive as notifications',
]
BUDGET = {
    'quick': {'examples': 1000},
    'thorough': {'examples': 3000, 'shards': 16},
}


def strategy(tier):
  pairs = [
      (4, st.tuples(st.just('join'), st.integers(0, 8)).map(list)),
      (4, st.tuples(st.just('leave'), st.integers(0, 8)).map(list)),
      (4, st.just(['dispatch'])),
      (2, st.tuples(st.just('complete'), st.integers(0, 40), st.sampled_from(['reply', 'error'])).map(list)),
      (1, st.tuples(st.just('down'), st.integers(0, 8), st.booleans()).map(list)),
      (1, st.tuples(st.just('up'), st.integers(0, 8)).map(list)),
      (2, st.tuples(st.just('advance'), st.sampled_from([1, 2, 5, 10, 30])).map(list)),
      # long enough for a jitter round of the aperture (when the configuration has one) to come and go
      (2, st.tuples(st.just('advance'), st.sampled_from([1200, 2600])).map(list)),
      (2, st.tuples(st.just('flap_pending'), st.integers(0, 3)).map(list)),
      (2, st.tuples(st.just('expire_parked'), st.integers(0, 5)).map(list)),
  ]
  cfg = lb_config().flatmap(lambda c: st.tuples(st.sampled_from([0, 0, 3, 10, 20]),
                                                st.sampled_from([None, None, None, ['error', 1], ['timeout', 1], ['timeout', 2]])).map(
      lambda t: dict(c, getservers_delay_ms=t[0], provider_fail=t[1]))).flatmap(
      # half of the aperture configurations re-draw one member every 1-2 s (jitter)
      lambda c: st.sampled_from([0, 1]).map(lambda j: dict(c, aperture=dict(c['aperture'], jitter_min=j, jitter_max=2 * j))))
  return st.fixed_dictionaries({'config': cfg, 'ops': sized_list(weighted(*pairs), 0, 70 if tier == 'quick' else 180)})


def execute(plan):
  with World(seed=plan['config']['seed']) as w:
    run = LBRun(plan, ID)
    run.build(w)
    settle()
    run.run_ops()
    run.step += 1
    run.cur_op = ['final']
    pf = plan['config'].get('provider_fail')
    advance(0.1 + (5.0 * pf[1] + 0.1 if pf else 0))
    run.after_step()
    if not run.lb_init_done():
      run.viol(ID, 'init-never-done', 'initial member list never finished loading')
    members = run.model_members()
    run.check_membership(members)
    # every member the balancer holds in its working set has been asked to open (also one that joined an empty balancer)
    never = [ch for ch in run.live_channels().values() if ch.open_calls == 0 and not ch.close_steps]
    if never and run.is_open():
      run.viol(ID, 'member-never-opened', 'the balancer is open and holds %r, but never opened %s' % (sorted(run.live_channels()), never))
    if run.kind == 'heap':
      # saturating probe
      for r in list(run.outstanding_reqs()):
        try:
          r.stack.AsyncProcessResponseMessage(MethodReturnMessage('ok'))
        except Exception as e:
          run.raised('completing request %d on %r' % (r.id, r.channel), e)
      settle()
      for ch in run.live_channels().values():
        if not ch.close_steps:
          ch._state = ChannelState.Open
      run.account_completions()
      touched = []
      for _ in range(len(members)):
        n0 = len(run.reqs)
        run.cur_op = ['probe']
        run.op_dispatch()
        r = run.reqs[n0]
        if r.channel is None:
          run.viol(ID, 'member-not-eligible', 'probe request reached no member (server set %r)' % sorted(members))
        else:
          touched.append(r.channel.port)
      if sorted(touched) != sorted(members):
        run.viol(ID, 'probe-mismatch', 'saturating probe touched %r, server set is %r' % (sorted(touched), sorted(members)))
      if not members:
        n0 = len(run.reqs)
        run.op_dispatch()
    flags = run.flags
  nt = None
  if ('duplicate_join' in flags and 'unknown_leave' in flags and 'rejoin' in flags) or 'notification_before_init' in flags:
    nt = sorted(flags)
  return Outcome(nontrivial=nt, classes=['balancer=' + plan['config']['balancer']] + sorted(flags))
