"""C02 - a call only ever receives the reply to its own request."""
from hypothesis import strategies as st

from vf.evidence import Outcome
from vf.world import World, Violation
from vf.stack import run_world, echo
from vf.fixtures.richsvc import Rich
from vf.props.c01 import palette

ID = 'C02'
LEVEL = 'exploration'
RULE = ('Hypothesis-generated world plans tuned for concurrency and stale replies: 2-12 calls with pairwise distinct arguments '
        '("<c i>" + text incl. non-ASCII and empty suffix) on a multi-method interface (echo / risky / put(struct) / names) or '
        'the generated Hello interface, 1-3 endpoints, Thrift stack with pool max_watermark 1-2 (connections are reused; '
        'requests queue) and ThriftMux stack (many calls in flight on one connection, replies reordered by drawn delays, '
        'optional reply contexts), timeouts shorter than some replies so that stale replies exist, writes that block part-way '
        'for about one timeout (serial), server kill / close events between calls. Oracle: every call that returns a value returns the echo "<port>|<method>|<arg>" computed by a server '
        'for exactly its own method and argument; every (method, argument) a server decoded belongs to an issued call, no call '
        'is decoded twice, and the decoded argument equals what the caller passed. Non-trivial = >= 2 calls in flight on one '
        'endpoint at once, or a reply delivered on a connection after its call had timed out. distinct = distinct non-trivial plans.')
ASSUMPTIONS = [
    'peers never forge replies: each reply answers the request it was computed for (same connection; same tag on mux)',
    'no assertion on calls that failed or timed out',
]
BUDGET = {
    'quick': {'examples': 1200, 'seconds': 75},
    'thorough': {'examples': 3000, 'shards': 16},
}

SUFFIX = st.one_of(st.just(''), st.text(max_size=6), st.text(alphabet='aé€\U0001F600', max_size=4),
                   st.text(alphabet='abcdefghijklmnop é', min_size=45, max_size=90))


@st.composite
def plans(draw, max_calls=12):
  T = draw(st.sampled_from([20, 50, 100]))
  stack = draw(st.sampled_from(['thrift', 'thriftmux']))
  iface = draw(st.sampled_from(['rich', 'rich', 'hello']))
  nports = draw(st.sampled_from([1, 1, 2, 3]))
  ports = [9001 + i for i in range(nports)]
  d = st.sampled_from(sorted(set(palette(T) + palette(20) + palette(50) + [2, 3, 8, 25, 30, 35, 40, 60, 70])))
  kinds = ['reply'] * 6 + ['never', 'close', 'reset'] + (['eof_mid'] if stack == 'thrift' else ['error', 'nack'])
  servers = {}
  for p in ports:
    reqs = draw(st.lists(st.tuples(st.sampled_from(kinds), d).map(lambda t: [t[0], t[1]] + (['boom'] if t[0] == 'error' else [])), max_size=12))
    tl = draw(st.lists(st.tuples(st.integers(0, 3 * T), st.sampled_from(['kill', 'close'])).map(list), max_size=1))
    stall = None
    if draw(st.sampled_from([False, False, True])):
      # a write that blocks part-way (full peer window) for about one timeout
      stall = {'conn': draw(st.integers(0, 1)), 'send_index': draw(st.integers(0, 3 if stack == 'thrift' else 6)),
               'cut': draw(st.sampled_from([1, 4, 10, 18, 30])), 'for_ms': draw(st.sampled_from([5, 15, 25, 45, 60, T + 10, 2 * T]))}
    servers[str(p)] = {'connect': [], 'requests': reqs, 'timeline': tl, 'stall': stall,
                       'chunks': draw(st.one_of(st.none(), st.lists(st.integers(1, 9), min_size=1, max_size=4))),
                       # replies arriving as segments 1 ms apart: readers block part-way through a prefix or a body
                       'segments': draw(st.sampled_from([None, None, None, [3], [1, 2], [3, 1, 20], [2, 30], [6]]))}
  wait_open = draw(st.sampled_from([True, True, False]))
  if not wait_open:
    slow = draw(st.sampled_from([3, 8, 15]))
    for p in ports:
      servers[str(p)]['connect'] = [['accept', slow]]
  ncalls = draw(st.integers(2, max_calls))
  methods = ['hi'] if iface == 'hello' else ['echo', 'echo', 'risky', 'put', 'names']
  calls = []
  for i in range(ncalls):
    m = draw(st.sampled_from(methods))
    pre = draw(st.sampled_from(['', '', '', '!e1:'])) if m == 'risky' else ''
    calls.append({'at': draw(st.one_of(st.integers(0, 2 * T), st.sampled_from([0, 1, 2, 10, 20, 21, 22, 25, 30, 31, 35, 40, 50, 51, 55, 60]))), 'method': m, 'arg': '%s<c%d>%s' % (pre, i, draw(SUFFIX)),
                  'timeout_ms': draw(st.sampled_from([None, None, 20, 50])), 'via_dispatcher': draw(st.booleans())})
  pool = {'max': draw(st.integers(1, 2)), 'min': draw(st.integers(0, 1)), 'queue': None} if stack == 'thrift' else None
  gate = None
  if stack == 'thriftmux' and draw(st.sampled_from([False, False, True])):
    # back pressure: the frame of one call without a deadline inside the run is held in the socket write for a while, so
    # that later requests pile up in the connection's send queue (and may time out there) before the write completes
    m0 = methods[0]
    calls.append({'at': 5, 'method': m0, 'arg': '<c%d>nodeadline' % len(calls), 'timeout_ms': 100000, 'via_dispatcher': True})
    gate = {'from_ms': 4, 'until_ms': 5 + draw(st.sampled_from([8, 22, 30, 55, T + 5]))}
    # requests with short deadlines queued behind the held frame, and fresh calls right after the write resumes
    for at_, tmo_ in [(draw(st.integers(6, 8)), draw(st.sampled_from([20, 50, 50]))), (draw(st.integers(8, 12)), draw(st.sampled_from([20, 20, 50]))),
                      (gate['until_ms'] + draw(st.integers(0, 3)), None), (gate['until_ms'] + draw(st.integers(0, 6)), None)]:
      calls.append({'at': at_, 'method': m0, 'arg': '<c%d>q' % len(calls), 'timeout_ms': tmo_, 'via_dispatcher': draw(st.booleans())})
  return {
      'seed': draw(st.integers(0, 2 ** 16)), 'stack': stack, 'iface': iface,
      'client_id': draw(st.sampled_from([None, 'cli'])) if stack == 'thriftmux' else None,
      'balancer': draw(st.sampled_from(['default', 'heap'])), 'pool': pool, 'timeout_ms': T,
      # a third of the plans issue their first calls while the client is still opening (the first connects take a few ms)
      'wait_open': wait_open,
      'serverset': {'kind': 'uri', 'initial': ports, 'events': []},
      'servers': servers, 'calls': calls, 'run_ms': 3 * T + 400, 'close_at': None,
      'reply_contexts': draw(st.booleans()), 'gate': gate,
      'send_max': draw(st.sampled_from([None, None, 1, 7, 64, 4096])),
      'tag_state': draw(st.sampled_from([None, None, [254, []], [65534, []], [65537, [2]], [65537, [2, 3]], [2 ** 23 + 1, [2, 3]],
                                         [2 ** 16 + 2 ** 8 + 1, [2, 258]]])) if stack == 'thriftmux' else None,
  }


def strategy(tier):
  return plans(max_calls=12 if tier == 'quick' else 24)


def expected_value(port, rec):
  if rec.method == 'put':
    return Rich.Item(name=echo(port, 'put', rec.arg), count=rec.id)
  if rec.method == 'names':
    return [echo(port, 'names', rec.spec.get('n', rec.id))]
  return echo(port, rec.method, rec.arg)


def execute(plan):
  with World(seed=plan['seed']):
    if plan.get('reply_contexts') and plan['stack'] == 'thriftmux':
      plan = dict(plan)
    tr = run_world(plan)
    if plan.get('reply_contexts'):
      pass
    ports = [int(p) for p in plan['servers']]
    issued = dict((r.id, r) for r in tr.calls if r.issued_at is not None)
    flags = set()
    # 1. what the callers got
    for r in issued.values():
      if r.first is None or r.first[1] != 'value':
        continue
      got = r.first[2]
      if got not in [expected_value(p, r) for p in ports]:
        raise Violation(ID, 'foreign-reply', 'call %d %s(%r) returned %r, which is not the server\'s value for this very request' % (
            r.id, r.method, r.arg, got))
      fin = tr.final.get(r.id)
      if fin is None or fin[0] != 'value' or fin[1] != got:
        raise Violation(ID, 'reply-replaced', 'call %d first returned %r, later holds %r' % (r.id, got, fin))
    # 2. what the servers decoded
    seen = {}
    for port, peer in tr.peers.items():
      log = peer.requests if hasattr(peer, 'requests') else [f for f in peer.frames if f.get('k') is not None]
      for q in log:
        if q.get('decode_error'):
          raise Violation(ID, 'undecodable-request', 'server %d could not decode a request: %s' % (port, q['decode_error']))
        m, args = q['method'], q['args']
        if m is None:
          continue
        a = args[0]
        key = None
        for r in issued.values():
          if r.method != m:
            continue
          if m == 'put':
            same = isinstance(a, Rich.Item) and a.name == r.arg and a.count == r.id
          elif m == 'names':
            same = a == r.spec.get('n', r.id)
          else:
            same = a == r.arg
          if same:
            key = r.id
            break
        if key is None:
          raise Violation(ID, 'unknown-request', 'server %d decoded %s%r, which no caller issued' % (port, m, args))
        if key in seen:
          raise Violation(ID, 'duplicate-request', 'call %d was decoded twice (servers %d and %d)' % (key, seen[key], port))
        seen[key] = port
    # non-triviality: overlap on one endpoint, stale replies
    for port, peer in tr.peers.items():
      log = peer.requests if hasattr(peer, 'requests') else [f for f in peer.frames if f.get('k') is not None]
      times = sorted(q['t'] for q in log)
      for i in range(1, len(times)):
        if times[i] - times[i - 1] < 0.002:
          flags.add('overlap_on_endpoint')
    for r in issued.values():
      if r.first and r.first[1] == 'timeout':
        if any(e[2] == 'rx' and e[1] > r.first[0] for e in tr.net.log):
          flags.add('reply_after_timeout')
  return Outcome(nontrivial=sorted(flags) or None, classes=['stack=' + plan['stack'], 'iface=' + plan['iface']] + sorted(flags))
