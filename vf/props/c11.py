"""C11 - multiplexed requests carry unique, unreserved tags that are recycled safely."""
import struct

import gevent
from gevent.event import Event
from hypothesis import strategies as st

from vf.evidence import Outcome
from vf.world import World, Violation, HarnessError, settle, advance
from vf.boot import loop
from vf.gen import sized_list, weighted
from vf.simnet import SimNet, Server
from vf.peers.mux import MuxPeer
from vf.peers.kafka import KafkaPeer
from vf.codecs import mux_ref as M
from vf.codecs import kafka_ref as K

from scales.constants import ChannelState, MessageProperties, SinkProperties
from scales.core import ScalesUriParser
from scales.kafka.sink import KafkaEndpoint, KafkaSerializerSink, KafkaTransportSink
from scales.message import Deadline, MethodCallMessage, MethodReturnMessage, TimeoutError
from scales.mux.sink import TagPool, Tag
from scales.observable import Observable
from scales.sink import ClientMessageSink, ClientMessageSinkStack
from scales.thriftmux.sink import SocketTransportSink, ThriftMuxMessageSerializerSink

from test.scales.thrift.gen_py.hello import Hello

ID = 'C11'
LEVEL = 'exploration'
RULE = ('(i) Hypothesis-generated histories (<= 70 ops) against the real thriftmux SocketTransportSink and KafkaTransportSink '
        'on the simulated socket with an adversarial peer: request(with/without deadline) / peer_reply(any live request, any '
        'order) / duplicate reply for an answered tag / reply for a never-allocated tag / non-ping reply on reserved tags 0 and '
        '1 / timeout(request) before transmission (send loop held by a gate) and after / hold and release the send loop / '
        're-open the connection; a quarter of the histories run on a connection whose tag space is nearly used up (the same TagPool class with a bound of 5 or 8): a call that finds no tag is refused and nothing of it may be written. Tags are decoded from the frames the peer receives with the harness codecs. (ii) TagPool alone '
        'with max_tag 4-12: get / release(outstanding) / release again, to exhaustion; thorough additionally drains the real '
        'TagPool(2^24-1). Non-trivial = a timeout after transmission followed by reuse pressure, or a reserved / unknown / '
        'duplicate reply, or an exhausted pool. distinct = distinct non-trivial plans.')
ASSUMPTIONS = [
    'forged replies only name reserved tags, never-allocated tags or tags of already answered requests (a peer cannot name a tag it has not seen)',
    'TagPool.release is only called with leased tags in (ii) (its documented precondition); the transport is responsible for that',
    'one sendall is atomic; the gate holds a frame before any byte is taken',
]
BUDGET = {
    'quick': {'examples': 1100},
    'thorough': {'examples': 3000, 'shards': 16},
}

PORT = 9400
EP = ScalesUriParser.Endpoint('127.0.0.1', PORT)


def strategy(tier):
  pairs = [
      (8, st.tuples(st.just('request'), st.booleans()).map(list)),
      (5, st.tuples(st.just('reply'), st.integers(0, 30), st.sampled_from(['ok', 'ok', 'ok', 'rerr', 'bad_rerr', 'ok_handler_raises'])).map(list)),
      (2, st.tuples(st.just('dup'), st.integers(0, 30)).map(list)),
      (2, st.tuples(st.just('forge'), st.sampled_from([0, 1, 1, 'unknown', 'unknown_big', 'alias_high', 'alias_mid', 'alias_low'])).map(list)),
      (3, st.tuples(st.just('timeout'), st.integers(0, 30)).map(list)),
      (2, st.just(['hold'])),
      (2, st.just(['release'])),
      (1, st.just(['reopen'])),
      # a request whose deadline fires while its frame sits in a blocked socket write, then the write completes
      (1, st.just(['timeout_in_write'])),
      # re-open with 1-3 callers parked inside the transport during the connect, all timing out before it completes
      (1, st.tuples(st.just('reopen_expired'), st.integers(1, 3)).map(list)),
  ]
  transport = st.fixed_dictionaries({
      'kind': st.just('transport'),
      'proto': st.sampled_from(['thriftmux', 'thriftmux', 'kafka']),
      # None: the real bound (2^24-1); else a small one, so that histories reach the end of the tag space
      'pool_max': st.sampled_from([None, None, None, 5, 8]),
      # where the connection's tag counter stands when the history starts (just below 2^8, 2^15, 2^16, 2^16 + 2^15, 2^23)
      'tag_base': st.sampled_from([None, None, None, 250, 32762, 65530, 98300, 2 ** 23 - 4]),
      'ops': sized_list(weighted(*pairs), 0, 70 if tier == 'quick' else 200),
  })
  pool = st.fixed_dictionaries({
      'kind': st.just('pool'),
      'max_tag': st.integers(4, 12),
      'ops': sized_list(st.one_of(st.just(['get']), st.just(['get']), st.tuples(st.just('release'), st.integers(0, 12)).map(list),
                                  st.tuples(st.just('rerelease'), st.integers(0, 12)).map(list)), 0, 60),
  })
  return weighted((3, transport), (1, pool))


def enumerate_plans(tier, k, n):
  if tier == 'thorough' and k == 0:
    yield {'kind': 'drain'}


class Terminal(ClientMessageSink):
  def AsyncProcessRequest(self, *a):
    raise HarnessError('terminal')

  def AsyncProcessResponse(self, sink_stack, context, stream, msg):
    context.completions.append(msg)
    if getattr(context, 'handler_raises', False):
      context.handler_raises = False
      raise RuntimeError('reply handler of request %d failed' % context.id)     # a sink above the transport blows up


class Req(object):
  def __init__(self, rid):
    self.id = rid
    self.completions = []
    self.tag = None
    self.conn = None       # connection generation it was submitted on
    self.written = False
    self.answered = False
    self.timed_out = False
    self.evt = None
    self.stack = None
    self.frame = None
    self.freed = False     # model: tag no longer allocated


class Run(object):
  def __init__(self, plan):
    self.plan = plan
    self.proto = plan['proto']
    self.reqs = []
    self.flags = set()
    self.gen = 0
    self.failure = None
    self.held = None          # Event while the send loop is held
    self.early_expired = 0    # callers to park (and time out) inside the transport during the next open
    self.blocked = None       # request whose frame is blocked inside sendall
    self.step = -1
    self.cur_op = None

  def fail(self, key, detail):
    v = Violation(ID, key, '%s (%s, step %d: %r)' % (detail, self.proto, self.step, self.cur_op))
    if self.failure is None:
      self.failure = v
    raise v

  # --- construction
  def build(self):
    self.net = SimNet()
    self.net.install()
    if self.proto == 'thriftmux':
      self.peer = MuxPeer(Hello.Processor, lambda m, a: 'echo:' + a[0], script=lambda k, f, m, a: ['never'])
      ser = ThriftMuxMessageSerializerSink.Builder()
      ser.next_provider = SocketTransportSink.Builder()
      props = {SinkProperties.Label: 'svc', SinkProperties.Endpoint: EP, SinkProperties.ServiceInterface: Hello.Iface}
      orig = self.peer.on_frame

      def on_frame(sock, d):
        orig(sock, d)
        self.on_mux_frame(sock, d)
      self.peer.on_frame = on_frame
    else:
      self.peer = KafkaPeer()
      ser = KafkaSerializerSink.Builder()
      ser.next_provider = KafkaTransportSink.Builder()
      props = {SinkProperties.Label: 'svc', SinkProperties.Endpoint: EP}
      orig = self.peer.on_frame

      def on_frame(sock, frame):
        orig(sock, frame)
        self.on_kafka_frame(sock, self.peer.requests[-1])
      self.peer.on_frame = on_frame
    self.server = Server(self.net, ('127.0.0.1', PORT), self.peer)
    self.provider, self.props = ser, props
    self.net.gate = self.gate
    self.open()

  def open(self):
    self.gen += 1
    self.written_unanswered = {}     # tag -> Req on the current connection
    self.peak = 0
    self.max_tag_seen = 1
    # a transport is opened once; a re-open is a fresh transport from the provider (as the resurrector does)
    self.sink = self.provider.CreateSink(self.props)
    self.transport = self.sink.next_sink
    early = self.early_expired
    self.early_expired = 0
    if early:
      self.server.default_connect = ['accept', 0.005]
    ar = self.sink.Open()
    if early:
      # callers hand requests (with deadlines) to the transport while it is still connecting; their deadlines pass
      # before the connection is up: none of them is ever written, so none of them may keep a tag
      parked = []
      for _ in range(early):
        parked.append(self.request(True, parked_during_open=True))
      settle()
      advance(0.001)
      for r in parked:
        if r is not None and not r.completions:
          r.timed_out = True
          r.dropped_expected = True
          self.flags.add('timeout_while_waiting_for_open')
          r.evt.Set(True)
          r.stack.AsyncProcessResponseMessage(MethodReturnMessage(error=TimeoutError()))
      self.server.default_connect = ['accept', 0.001]
      self.peak = max(self.peak, early)      # when the connection comes up they all hold a tag for a moment
    advance(0.02)
    if not ar.ready() or ar.exception or self.transport.state != ChannelState.Open:
      self.fail('open-failed', 'transport did not open')
    self.tag_floor = 1
    if self.plan.get('tag_base') and not self.plan.get('pool_max'):
      # a long-lived connection: the tag counter already stands at a high-water mark (earlier tags were abandoned in transit)
      self.transport._tag_pool._next = max(self.transport._tag_pool._next, self.plan['tag_base'])
      self.tag_floor = self.transport._tag_pool._next
      self.max_tag_seen = self.tag_floor
    if self.plan.get('pool_max') and not early:
      # a connection whose tag space is nearly used up, scaled down: the same TagPool class with a small bound
      # (the transport creates its pool when it opens)
      self.transport._tag_pool = TagPool(self.plan['pool_max'], 'svc', 'h:1')
    self.sock = [s for s in self.net.sockets if s.connected and not s.closed][-1]

  def gate(self, sock, buf):
    if self.held is None:
      return None
    r = self.identify(buf)
    self.blocked = r if r is not None else 'other'
    return self.held

  def identify(self, buf):
    """Which request does this outgoing frame belong to (None: ping/discard)."""
    try:
      if self.proto == 'thriftmux':
        d = M.decode_frame(bytes(buf[4:]))
        if d['type'] != M.T_DISPATCH:
          return None
        tag = d['tag']
      else:
        tag = K.parse_request(bytes(buf[4:]))['correlation_id']
    except Exception:
      return None
    for r in reversed(self.reqs):
      if r.conn == self.gen and r.tag == tag and not r.written:
        return r
    return None

  # --- frames as the peer sees them
  def note_written(self, tag, rid_text):
    if not (2 <= tag <= 2 ** 24 - 2):
      key = 'reserved-tag' if tag in (0, 1) else 'tag-out-of-range'
      self.fail(key, 'request %s written with tag %d' % (rid_text, tag))
    other = self.written_unanswered.get(tag)
    if other is not None:
      self.fail('tag-collision', 'request %s written with tag %d which unanswered request %d also carries' % (rid_text, tag, other.id))
    r = None
    for x in self.reqs:
      if x.conn == self.gen and ('r%d' % x.id) == rid_text:
        r = x
    if r is None:
      raise HarnessError('unknown request %r' % rid_text)
    if getattr(r, 'refused', False) or (r.completions and r.tag is None):
      self.fail('refused-request-written', 'request %d was refused (no tag left) but written with tag %d' % (r.id, tag))
    if r.tag != tag:
      self.fail('tag-changed', 'request %d was assigned tag %r but written with %d' % (r.id, r.tag, tag))
    if r.timed_out and r.dropped_expected:
      self.fail('written-after-drop', 'request %d timed out before transmission but was written' % r.id)
    r.written = True
    self.written_unanswered[tag] = r
    if tag > self.max_tag_seen:
      self.max_tag_seen = tag
    alloc = len([x for x in self.reqs if x.conn == self.gen and not x.freed])
    if tag > self.tag_floor + max(self.peak, alloc):
      self.fail('tag-consumption', 'tag %d written although at most %d tags were ever allocated at once on this connection' % (
          tag, max(self.peak, alloc)))

  def on_mux_frame(self, sock, d):
    try:
      if d['type'] == M.T_DISPATCH:
        self.note_written(d['tag'], d['args'][0] if d.get('args') else '?')
      elif d['type'] == M.T_PING:
        if d['tag'] != 1:
          self.fail('ping-tag', 'Tping with tag %d' % d['tag'])
      elif d['type'] == M.T_DISCARDED:
        if d['tag'] != 0:
          self.fail('discard-tag', 'Tdiscarded with tag %d' % d['tag'])
        rs = [x for x in self.reqs if x.conn == self.gen and x.written and x.timed_out and x.tag == d['which']]
        if not rs:
          self.fail('discard-unknown', 'Tdiscarded names tag %d which no written, timed-out request carried' % d['which'])
    except Violation:
      pass       # recorded in self.failure; raised from the harness greenlet

  def on_kafka_frame(self, sock, rec):
    try:
      if 'error' in rec:
        self.fail('bad-frame', rec['error'])
      rq = rec['req']
      val = rq['topics'][0]['partitions'][0]['messages'][0]['value'].decode()
      self.note_written(rq['correlation_id'], val)
    except Violation:
      pass

  # --- ops
  def request(self, deadline, parked_during_open=False):
    if self.transport.state != ChannelState.Open and not parked_during_open:
      return
    r = Req(len(self.reqs))
    r.conn = self.gen
    r.dropped_expected = False
    self.reqs.append(r)
    if self.proto == 'thriftmux':
      msg = MethodCallMessage(Hello.Iface, 'hi', ('r%d' % r.id,), {})
    else:
      msg = MethodCallMessage(None, 'Put', (b'topic', [('r%d' % r.id).encode()], 1), {})
      msg.properties[MessageProperties.Endpoint] = KafkaEndpoint('127.0.0.1', PORT, 0)
    if deadline:
      msg.properties[Deadline.KEY] = loop.now() + 5.0
      r.evt = Observable()
      msg.properties[Deadline.EVENT_KEY] = r.evt
    st_ = ClientMessageSinkStack()
    st_.Push(Terminal(), r)
    r.stack = st_
    r.msg = msg
    if parked_during_open:
      # the caller's own greenlet: it waits inside the transport until the connection is up
      def go():
        self.sink.AsyncProcessRequest(st_, msg, None, {})
        r.tag = msg.properties.get(Tag.KEY)
      gevent.spawn(go)
      return r
    try:
      self.sink.AsyncProcessRequest(st_, msg, None, {})
    except Exception as e:
      if self.plan.get('pool_max') and 'No tags left' in str(e):
        # every tag is out: the call is refused; nothing of it may reach the peer (least of all under a reserved tag)
        self.flags.add('tag_pool_exhausted')
        r.refused = True
        r.freed = True
        return
      self.fail('request-raised', 'request %d raised %r' % (r.id, e))
    r.tag = msg.properties.get(Tag.KEY)
    if r.completions:
      r.freed = True
      return
    alloc = len([x for x in self.reqs if x.conn == self.gen and not x.freed])
    self.peak = max(self.peak, alloc)

  def live(self):
    return [r for r in self.reqs if r.conn == self.gen and r.written and not r.answered]

  def send_reply(self, tag, r=None, kind='ok'):
    if self.proto == 'thriftmux' and kind in ('rerr', 'bad_rerr'):
      # the peer answers with an error frame: the current Rerr (-128) or the legacy one (127)
      self.flags.add('answered_with_' + kind)
      self.sock.deliver(M.encode_frame(M.R_ERR if kind == 'rerr' else M.BAD_R_ERR, tag, b'server says no'))
    elif self.proto == 'thriftmux':
      payload = r.frame_reply if r is not None and getattr(r, 'frame_reply', None) else self.default_reply()
      self.sock.deliver(M.encode_rdispatch(tag, M.OK, payload))
    else:
      self.sock.deliver(K.encode_produce_response(tag, [(b'topic', [(0, 0, 7)])]))

  def default_reply(self):
    from vf.peers.thrift_serial import run_processor
    from thrift.transport.TTransport import TMemoryBuffer
    from thrift.protocol.TBinaryProtocol import TBinaryProtocol
    from thrift.Thrift import TMessageType
    b = TMemoryBuffer()
    p = TBinaryProtocol(b)
    p.writeMessageBegin('hi', TMessageType.REPLY, 0)
    res = Hello.hi_result(success='echo')
    res.write(p)
    p.writeMessageEnd()
    return b.getvalue()

  def reply(self, i, kind='ok'):
    l = self.live()
    if not l:
      return
    r = l[i % len(l)]
    if r is not l[0]:
      self.flags.add('out_of_order_reply')
    r.answered = True
    r.freed = True
    self.written_unanswered.pop(r.tag, None)
    if r.timed_out:
      self.flags.add('late_reply_after_timeout')
    if kind == 'ok_handler_raises':
      if not r.timed_out:
        r.handler_raises = True
        self.flags.add('reply_handler_raised')
      kind = 'ok'
    self.send_reply(r.tag, r, kind)

  def dup(self, i):
    done = [r for r in self.reqs if r.conn == self.gen and r.answered]
    if not done:
      return
    r = done[i % len(done)]
    # sound only if the tag is not currently held by a request whose frame is still unwritten
    for x in self.reqs:
      if x.conn == self.gen and x.tag == r.tag and not x.freed and not x.written:
        return
    cur = self.written_unanswered.pop(r.tag, None)
    if cur is not None:
      cur.answered = True
      cur.freed = True
    self.flags.add('duplicate_reply')
    self.send_reply(r.tag)

  def forge(self, what):
    used = [x.tag for x in self.reqs if x.conn == self.gen and x.tag is not None]
    if what == 'unknown':
      tag = max(used + [1]) + 3
    elif what == 'unknown_big':
      tag = 2 ** 24 - 5
    elif what in ('alias_high', 'alias_mid', 'alias_low'):
      # a never-issued tag that differs from an outstanding one only in high bits (thriftmux: 24-bit tags)
      live = [r.tag for r in self.live() if r.tag is not None]
      if not live or self.proto != 'thriftmux':
        return
      tag = live[0] + {'alias_high': 2 ** 23, 'alias_mid': 2 ** 16, 'alias_low': 2 ** 8}[what]
      if tag in used:
        return
    else:
      tag = what
    if self.proto == 'kafka' and tag in (0, 1):
      self.flags.add('reserved_reply')
    elif tag in (0, 1):
      self.flags.add('reserved_reply')
    else:
      self.flags.add('unknown_reply')
    self.send_reply(tag)

  def timeout(self, i, which=None):
    cands = [r for r in self.reqs if r.conn == self.gen and r.evt is not None and not r.timed_out and not r.answered and not r.completions]
    if not cands:
      return
    r = which if which in cands else cands[i % len(cands)]
    r.timed_out = True
    if r.written:
      self.flags.add('timeout_after_transmission')
    elif self.blocked is r:
      self.flags.add('timeout_while_in_sendall')
    else:
      self.flags.add('timeout_before_transmission')
      r.dropped_expected = True
    # exactly what ClientTimeoutSink._TimeoutHelper does
    r.evt.Set(True)
    r.stack.AsyncProcessResponseMessage(MethodReturnMessage(error=TimeoutError()))

  def hold(self):
    if self.held is None:
      self.held = Event()
      self.blocked = None

  def release(self):
    if self.held is not None:
      e, self.held = self.held, None
      self.blocked = None
      e.set()

  def reopen(self):
    self.release()
    settle()
    self.sink.Close()
    settle()
    self.flags.add('reopen')
    self.open()

  def after(self):
    if self.failure is not None:
      raise self.failure
    if self.held is None:
      # the send queue has drained: requests that timed out before transmission were dropped
      for r in self.reqs:
        if r.conn == self.gen and r.dropped_expected and not r.freed:
          r.freed = True
    if self.transport.state != ChannelState.Open:
      self.fail('transport-closed', 'transport closed itself (state %r)' % self.transport.state)
    for r in self.reqs:
      if len(r.completions) > 1:
        self.fail('completed-twice', 'request %d completed %d times' % (r.id, len(r.completions)))


def _exec_transport(plan):
  run = Run(plan)
  run.build()
  for run.step, op in enumerate(plan['ops']):
    run.cur_op = op
    k = op[0]
    if k == 'request':
      run.request(op[1])
    elif k == 'reply':
      run.reply(op[1], op[2] if len(op) > 2 else 'ok')
    elif k == 'dup':
      run.dup(op[1])
    elif k == 'forge':
      run.forge(op[1])
    elif k == 'timeout':
      run.timeout(op[1])
    elif k == 'hold':
      run.hold()
    elif k == 'release':
      run.release()
    elif k == 'reopen':
      run.reopen()
    elif k == 'reopen_expired':
      run.early_expired = op[1]
      run.reopen()
    elif k == 'timeout_in_write':
      if run.held is None:
        run.hold()
        run.request(True)
        advance(0.002)
        if run.blocked is not None and run.blocked != 'other':
          run.timeout(0, which=run.blocked)
        advance(0.002)
        run.release()
    else:
      raise HarnessError(op)
    advance(0.002)
    run.after()
  # reuse pressure at the end: a burst after everything is answered must not mint tags beyond the peak
  run.cur_op = ['final']
  run.release()
  advance(0.002)
  for r in list(run.live()):
    run.reply(0)
  advance(0.005)
  run.after()
  for _ in range(3):
    run.request(False)
  advance(0.005)
  run.after()
  run.sink.Close()
  settle()
  f = run.flags
  nt = None
  if ('timeout_after_transmission' in f) or ('reserved_reply' in f) or ('unknown_reply' in f) or ('duplicate_reply' in f):
    nt = sorted(f)
  return Outcome(nontrivial=nt, classes=['proto=' + plan['proto']] + sorted(f))


def _exec_pool(plan):
  pool = TagPool(plan['max_tag'], 'svc', 'h:1')
  out = set()
  freed = []
  exhausted = False
  for op in plan['ops']:
    if op[0] == 'get':
      try:
        t = pool.get()
      except Exception:
        if len(out) < plan['max_tag'] - 3:
          raise Violation(ID, 'pool-early-exhaustion', 'TagPool(%d) raised with %d tags outstanding' % (plan['max_tag'], len(out)))
        exhausted = True
        continue
      if t in out:
        raise Violation(ID, 'pool-duplicate', 'TagPool handed out tag %d twice' % t)
      if not (2 <= t <= plan['max_tag'] - 1):
        raise Violation(ID, 'pool-range', 'TagPool(%d) handed out tag %d' % (plan['max_tag'], t))
      if len(out) >= plan['max_tag'] - 2:
        raise Violation(ID, 'pool-over-allocation', 'TagPool(%d) handed out a %dth tag' % (plan['max_tag'], len(out) + 1))
      out.add(t)
    elif op[0] == 'release' and out:
      t = sorted(out)[op[1] % len(out)]
      out.discard(t)
      freed.append(t)
      pool.release(t)
    elif op[0] == 'rerelease' and freed:
      t = freed[op[1] % len(freed)]
      if t not in out:
        pool.release(t)       # returning a free tag again is harmless by contract
  return Outcome(nontrivial=['exhausted'] if exhausted else None, classes=['pool'] + (['exhausted'] if exhausted else []))


def _exec_drain(plan):
  pool = TagPool(2 ** 24 - 1, 'svc', 'h:1')
  n = 0
  last = 1
  try:
    while True:
      t = pool.get()
      if t != last + 1:
        raise Violation(ID, 'pool-range', 'fresh TagPool minted %d after %d' % (t, last))
      last = t
      n += 1
      if n > 2 ** 24:
        break
  except Violation:
    raise
  except Exception:
    pass
  if n != 2 ** 24 - 3 or last != 2 ** 24 - 2:
    raise Violation(ID, 'pool-range', 'TagPool(2^24-1) minted %d tags, last %d (expected %d tags up to %d)' % (n, last, 2 ** 24 - 3, 2 ** 24 - 2))
  return Outcome(nontrivial=['drained'], classes=['drain'], counts={'tags_drained': n})


def execute(plan):
  with World(seed=0):
    if plan['kind'] == 'transport':
      return _exec_transport(plan)
    if plan['kind'] == 'pool':
      return _exec_pool(plan)
    return _exec_drain(plan)
