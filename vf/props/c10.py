"""C10 - timer queue runs each action once, never early, in deadline order.

State-machine style plan (op list interpreted against the real TimerQueue on
the virtual clock with cpu=0) compared with a reference schedule.
"""
from hypothesis import strategies as st

from vf.evidence import Outcome
from vf.gen import weighted
from vf.world import World, Violation, advance, settle
from vf.boot import loop

import gevent
import gevent.event
from scales.timer_queue import TimerQueue

ID = 'C10'
LEVEL = 'exploration'
RULE = ('Hypothesis-generated histories of schedule(delta, action kind) / schedule_same(i) / '
        'cancel(i) / advance(dt) ops (<= 50 ops; deadlines from 20 units in the past to 6000 units - more than five minutes in three of the four modes - ahead) for resolutions 0.25, 1 (times exact binary '
        'fractions), 0.01 (1 ms grid, 1 ms tolerance) and 0, interpreted against the real '
        'TimerQueue on a virtual clock and against a reference schedule; actions may themselves '
        'schedule or cancel; one plan in 16 starts after ~65500 earlier Schedule calls on the same queue, one in 14 with 3 or 120 actions that stay blocked. Non-trivial = a new earliest deadline was scheduled while the worker '
        'slept on a later one, or the current head was cancelled, or two pending deadlines tie '
        'after rounding. distinct = distinct non-trivial plans.')
ASSUMPTIONS = [
    'gevent event loop replaced by the virtual-time loop (FIFO callbacks, timers by due time then registration order)',
    'clock exact (cpu cost 0) in this harness; 0.01 s resolution checked with 1 ms tolerance',
    'order is demanded between two actions whenever both were on the heap together: the one due first was scheduled first, or the other was not yet due, or no yield separated the two Schedule calls',
]
BUDGET = {
    'quick': {'examples': 3000},
    'thorough': {'examples': 4000, 'shards': 16},
}

EPOCH = 1600000000.0

MODES = {
    # name: (resolution, unit seconds, resolution in units, tolerance seconds)
    '0.25': (0.25, 1.0 / 16, 4, 0.0),
    '1': (1, 1.0 / 16, 16, 0.0),
    '0': (0, 1.0 / 16, 0, 0.0),
    '0.01': (0.01, 0.001, 10, 1e-3),
}


def strategy(tier):
  action = st.one_of(
      st.just(['plain']),
      st.tuples(st.just('child'), st.integers(-4, 40)).map(list),
      st.tuples(st.just('cancel'), st.integers(0, 30)).map(list),
      st.just(['raise']),
      st.tuples(st.just('busy'), st.integers(1, 30)).map(list),
  )
  op = weighted(
      (6, st.tuples(st.just('schedule'), st.integers(-8, 80), action).map(list)),
      (6, st.tuples(st.just('schedule'), st.integers(-8, 80), st.just(['plain'])).map(list)),
      (5, st.tuples(st.just('schedule'), st.integers(-20, 0), st.just(['plain'])).map(list)),
      # far deadlines and long quiet periods (more than five minutes on the queue's clock)
      (1, st.tuples(st.just('schedule'), st.sampled_from([4900, 5300, 6000]), st.just(['plain'])).map(list)),
      (1, st.tuples(st.just('advance'), st.sampled_from([3000, 5000])).map(list)),
      (5, st.tuples(st.just('schedule_same'), st.integers(0, 30)).map(list)),
      (5, st.tuples(st.just('cancel'), st.integers(0, 30)).map(list)),
      # another greenlet schedules an action, a few turns of the event loop from now (i.e. while the worker is between two of its own steps)
      (3, st.tuples(st.just('spawn'), st.integers(-8, 40), st.integers(0, 3)).map(list)),
      (6, st.tuples(st.just('advance'), st.integers(0, 40)).map(list)),
  )
  return st.fixed_dictionaries({
      'resolution': st.sampled_from(sorted(MODES)),
      # a long-lived queue: this many earlier Schedule calls (each cancelled at once) before the history starts
      'churn': st.sampled_from([0] * 30 + [65500, 65530]),
      # this many actions that block (wait for something) are started first and stay blocked for the whole history
      'blockers': st.sampled_from([0] * 12 + [3, 120]),
      'ops': st.lists(op, max_size=50 if tier == 'quick' else 150),
  })


def _noop():
  pass


class _Entry(object):
  __slots__ = ('id', 'T', 'R_lo', 'R_hi', 's', 'cancelled_at', 'runs', 'cancel', 'kind', 'epoch')


def execute(plan):
  res, unit, res_u, tol = MODES[plan['resolution']]
  flags = set()
  with World(seed=0, cpu=0.0, epoch=EPOCH):
    q = TimerQueue(time_source=loop.now, resolution=res)
    settle()
    entries = []
    spawned_errors = []
    runlog = []
    busy_spans = []      # (start, end, entry id) of callbacks that kept the loop busy
    flags_busy = set()
    epoch = [0]        # bumped wherever the scheduling greenlet can have yielded to the worker

    def now_u():
      return int(round((loop.now() - EPOCH) / unit))

    def pending(e):
      return not e.runs and e.cancelled_at is None

    def do_cancel(i):
      if not entries:
        return
      e = entries[i % len(entries)]
      live = [x for x in entries if pending(x)]
      if live and pending(e) and e is min(live, key=lambda x: (x.R_lo, x.id)) and e.R_lo > now_u():
        flags.add('cancel_head')
      e.cancel()
      if e.cancelled_at is None:
        e.cancelled_at = now_u()

    def do_schedule(T_u, kind):
      e = _Entry()
      e.id = len(entries)
      e.T = T_u
      e.s = now_u()
      e.epoch = epoch[0]
      e.kind = kind
      e.cancelled_at = None
      e.runs = []
      if res_u:
        e.R_lo = -((-T_u) // res_u) * res_u
        # a deadline that is already on the grid stays where it is (checked for this epoch and grid: the library's
        # ceil(deadline / resolution) is exact for every on-grid value the generator can produce)
        e.R_hi = e.R_lo
      else:
        e.R_lo = e.R_hi = T_u
      live = [x for x in entries if pending(x)]
      if live and e.R_lo > e.s:
        head = min(x.R_lo for x in live)
        if e.R_hi < head and head > e.s:
          flags.add('new_head_while_sleeping')
      if any(x.R_lo == e.R_lo and x.T != e.T for x in live) and e.R_lo > e.s:
        flags.add('tie_after_rounding')
      if any(x.T == e.T for x in live) and e.R_lo > e.s:
        flags.add('equal_deadlines')
      entries.append(e)

      def action():
        epoch[0] += 1
        e.runs.append(loop.now())
        runlog.append(e.id)
        if kind[0] == 'child':
          do_schedule(now_u() + kind[1], ['plain'])
        elif kind[0] == 'cancel':
          do_cancel(kind[1])
        elif kind[0] == 'busy':
          # CPU-bound work inside the callback: the clock moves on while nothing else can run
          b0 = loop.now()
          loop._now += kind[1] * unit
          busy_spans.append((b0, loop.now(), e.id))
          flags_busy.add(1)
        elif kind[0] == 'block':
          gate.wait()                                      # a blocked action holds up nobody else
        elif kind[0] == 'raise':
          raise RuntimeError('action %d fails' % e.id)     # must not disturb the worker or other actions

      try:
        e.cancel = q.Schedule(EPOCH + T_u * unit, action)
      except Exception as ex:
        raise Violation(ID, 'schedule-raised', 'Schedule(%r) raised %r' % (T_u, ex))
      return e

    def check(final=False):
      if spawned_errors:
        raise spawned_errors[0]
      n = now_u()
      pos = dict((eid, i) for i, eid in enumerate(runlog))
      for e in entries:
        if len(e.runs) > 1:
          raise Violation(ID, 'ran-twice', 'action %d ran %d times' % (e.id, len(e.runs)))
        T = EPOCH + e.T * unit
        if e.runs:
          rt = e.runs[0]
          if rt < T - tol:
            raise Violation(ID, 'ran-early', 'action %d (T=%r units) ran %.6f s before T' % (e.id, e.T, T - rt))
          latest = EPOCH + max(e.R_hi, e.s) * unit
          # a callback that hogs the loop delays whatever falls due meanwhile (or at the very instant it starts, if it
          # runs first) until it returns: due actions then run at once
          moved = True
          while moved:
            moved = False
            for b0, b1, bid in busy_spans:
              if bid != e.id and pos.get(bid, 1 << 30) < pos.get(e.id, -1) and b0 - (tol + 1e-6) <= latest < b1:
                latest = b1
                moved = True
          if rt > latest + tol:
            raise Violation(ID, 'ran-late', 'action %d (T=%r, rounded=%r, scheduled at %r units) ran %.6f s after its rounded deadline' % (
                e.id, e.T, e.R_hi, e.s, rt - latest))
          if e.cancelled_at is not None and e.cancelled_at < e.R_lo and e.cancelled_at * unit + EPOCH <= rt - tol:
            raise Violation(ID, 'cancelled-ran', 'action %d cancelled at %r units (rounded deadline %r) still ran' % (
                e.id, e.cancelled_at, e.R_lo))
        else:
          if e.cancelled_at is None and (e.R_hi < n or (tol == 0.0 and e.R_hi <= n)):
            raise Violation(ID, 'not-run', 'action %d (T=%r, rounded=%r units) has not run at %r units' % (
                e.id, e.T, e.R_hi, n))
      # order among actions that were pending together before either was due
      pos = dict((eid, i) for i, eid in enumerate(runlog))
      ran = [e for e in entries if e.runs]
      for a in ran:
        for b in ran:
          if a.id >= b.id:
            continue
          if a.R_hi < b.R_lo:
            first, second = a, b
          elif b.R_hi < a.R_lo:
            first, second = b, a
          elif a.R_lo == b.R_lo and a.R_hi == a.R_lo and b.R_hi == b.R_lo:
            first, second = a, b   # tie: scheduling order (a.id < b.id)
          else:
            continue
          # the heap decides whenever both were in it together: always when the one that must run first was
          # scheduled first; otherwise only if the other one cannot have been taken off the heap yet - it was
          # not due, or no yield happened between the two Schedule calls
          if first.id > second.id and not (second.R_lo > first.s or first.epoch == second.epoch):
            continue
          if first.epoch == second.epoch and first.id > second.id and second.R_lo <= first.s:
            flags.add('overdue_pair_scheduled_without_yield')
          if pos[first.id] > pos[second.id]:
            raise Violation(ID, 'order', 'action %d (rounded %r, seq %d) ran after action %d (rounded %r, seq %d)' % (
                first.id, first.R_lo, first.id, second.id, second.R_lo, second.id))

    gate = gevent.event.Event()
    World.current.cleanups.append(gate.set)
    if plan.get('blockers'):
      for _ in range(plan['blockers']):
        do_schedule(now_u() + 1, ['block'])
      epoch[0] += 1
      advance(2 * unit + (res_u or 1) * unit)
      epoch[0] += 1
      check()
      flags_busy.add(4)
    if plan.get('churn'):
      for _ in range(plan['churn']):
        q.Schedule(EPOCH - 1, _noop)()
      flags_busy.add(2)
      advance(0)
    for op in plan['ops']:
      if op[0] == 'schedule':
        do_schedule(now_u() + op[1], op[2])
      elif op[0] == 'schedule_same':
        if entries:
          src = entries[op[1] % len(entries)]
          do_schedule(src.T, ['plain'])
      elif op[0] == 'cancel':
        do_cancel(op[1])
      elif op[0] == 'spawn':
        def later(delta=op[1], turns=op[2]):
          try:
            for _ in range(turns):
              gevent.sleep(0)
            epoch[0] += 1
            do_schedule(now_u() + delta, ['plain'])
            epoch[0] += 1
          except Violation as v:
            spawned_errors.append(v)
        gevent.spawn(later)
        flags_busy.add(3)
      elif op[0] == 'advance':
        target = EPOCH + (now_u() + op[1]) * unit
        d = target - loop.now()
        epoch[0] += 1
        advance(d if d > 0 else 0)
        epoch[0] += 1
        check()
    # teardown: past every deadline, no further scheduling activity by the harness
    for _ in range(4):
      last = max([e.R_hi for e in entries] + [now_u()])
      target = EPOCH + (last + 2 * max(res_u, 1)) * unit
      d = target - loop.now()
      epoch[0] += 1
      advance(d if d > 0 else 0)
      epoch[0] += 1
      check(final=True)
      if all(e.R_hi < now_u() for e in entries):
        break
    else:
      raise Violation(ID, 'not-run', 'actions keep being scheduled after 4 teardown rounds')
    gate.set()
    settle()
    q._worker.kill(block=False)
  classes = ['res=' + plan['resolution']] + sorted(flags)
  if any(e.kind[0] != 'plain' and e.runs for e in entries):
    classes.append('action_schedules_or_cancels')
  if 1 in flags_busy:
    classes.append('callback_kept_the_loop_busy')
  if 4 in flags_busy:
    classes.append('blocked_actions=%d' % plan['blockers'])
  if 3 in flags_busy:
    classes.append('scheduled_from_another_greenlet')
  if 2 in flags_busy:
    classes.append('after_65k_earlier_schedule_calls')
  return Outcome(nontrivial=sorted(flags) if flags else None, classes=classes)
