"""C18 - metrics are neither lost, duplicated nor split across equal sources."""
import math

from hypothesis import strategies as st

from vf.evidence import Outcome
from vf.world import World, Violation, settle, advance

from scales.constants import MessageProperties, SinkProperties
from scales.dispatch import MessageDispatcher
from scales.message import MethodReturnMessage
from scales.sink import ClientMessageSink, SinkProviderBase
from scales.asynchronous import AsyncResult
from scales.varz import (
    AggregateTimer, AverageTimer, Counter, Gauge, Rate, Source, VarzAggregator,
    VarzBase, VarzReceiver)

ID = 'C18'
LEVEL = 'exploration'
RULE = ('Hypothesis-generated update sequences (<= 60 updates) over 1-3 services x 0-3 methods x 0-3 endpoints x '
        '0-2 client ids: counter / rate / aggregate-timer increments, gauge sets, percentile samples, every update '
        'through a freshly constructed Source (instance metric objects and the static class-level form); sample '
        'streams of 1-2500 finite floats for a single source, recorded at one instant or spread over 400-900 virtual seconds and aggregated right after the last sample; plus N calls through two real MessageDispatchers with different names (same methods, same endpoints) on stub '
        'sinks that stamp endpoints; one enumerated long-lived source per run (3e5 samples at once in the quick tier, 1e6 in thorough, then 1500 s at one sample per second with a report every 100 s). Oracle: dictionary model keyed by the field tuple. Non-trivial = at least two '
        'updates from equal-but-distinct Source objects to one metric. distinct = distinct non-trivial plans.')
ASSUMPTIONS = [
    'gauges and percentile streams use one field tuple per (service, client id) key, as the property states ("a single source")',
    'percentile bounds compared with relative tolerance 1e-9',
    'samples are finite floats with magnitude <= 1e9',
]
BUDGET = {
    'quick': {'examples': 1500},
    'thorough': {'examples': 3000, 'shards': 8},
}


_KINDS = {
    'c': Counter,
    'r': Rate,
    'a': AggregateTimer,
    'g': Gauge,
    't': AverageTimer,
}


def _aggregate(*a, **kw):
  # producing a report over whatever has been recorded is always a valid call
  try:
    return VarzAggregator.Aggregate(*a, **kw)
  except Exception as e:
    raise Violation(ID, 'aggregate-raised', 'VarzAggregator.Aggregate raised %r' % (e,))


class _NamedSource(Source):
  def __repr__(self):
    return 'NamedSource(%s, %s, %s, %s)' % (self.method, self.service, self.endpoint, self.client_id)


class TV(VarzBase):
  _VARZ_BASE_NAME = 'vf.c18'
  _VARZ = dict(_KINDS)


METRIC = dict((k, 'vf.c18.' + k) for k in 'cragt')
SERVICES = ['svcA', 'svcB', 'svcC']
METHODS = [None, 'get', 'put', 'scan']
ENDPOINTS = [None, 'h1:1', 'h2:2', 'h3:3']
CLIENTS = [None, 'cl1', 'cl2']


def strategy(tier):
  upd = st.fixed_dictionaries({
      'k': st.sampled_from(['c', 'r', 'a', 'g', 't']),
      's': st.integers(0, 2), 'm': st.integers(0, 3), 'e': st.integers(0, 3), 'c': st.integers(0, 2),
      'v': st.one_of(st.integers(-5, 50), st.floats(-1e9, 1e9, allow_nan=False, allow_infinity=False)),
      'static': st.booleans(),
      # how the Source is built (all fields to the constructor, or some assigned afterwards, before first use), and
      # whether another Varz block with the same names is defined first (a second VarzBase subclass declaring them)
      'build': st.sampled_from(['ctor', 'ctor', 'ctor', 'assign', 'assign_all', 'subclass']),
      'redefine': st.sampled_from([False] * 11 + [True]),
  })
  call = st.fixed_dictionaries({'m': st.integers(1, 3), 'e': st.integers(1, 3), 'ok': st.booleans(), 'd': st.integers(0, 1)})
  return st.fixed_dictionaries({
      'seed': st.integers(0, 2 ** 16),
      'updates': st.lists(upd, max_size=60),
      'stream': st.one_of(
          st.lists(st.floats(-1e9, 1e9, allow_nan=False, allow_infinity=False), min_size=0, max_size=40),
          st.tuples(st.integers(1, 2500), st.integers(0, 2 ** 16), st.sampled_from([[-1e3, 1e6], [10, 100], [5e5, 1e6]]),
                    st.sampled_from([0, 0, 400, 900])).map(lambda t: {'n': t[0], 'seed': t[1], 'range': t[2], 'span_s': t[3]})),
      'calls': st.lists(call, max_size=30),
      'other_report_first': st.sampled_from([False, False, True]),
  })


class _StubSink(ClientMessageSink):
  def __init__(self, script):
    ClientMessageSink.__init__(self)
    self.script = script
    self.i = 0

  def Open(self):
    return AsyncResult.Complete()

  def Close(self):
    pass

  @property
  def state(self):
    return 2

  def AsyncProcessRequest(self, sink_stack, msg, stream, headers):
    c = self.script[self.i]
    self.i += 1
    msg.properties[MessageProperties.Endpoint] = _Ep(ENDPOINTS[c['e']])     # an endpoint object, as the balancers stamp
    if c['ok']:
      sink_stack.AsyncProcessResponseMessage(MethodReturnMessage('ok'))
    else:
      sink_stack.AsyncProcessResponseMessage(MethodReturnMessage(error=Exception('boom')))

  def AsyncProcessResponse(self, sink_stack, context, stream, msg):
    pass


class _StubProvider(SinkProviderBase):
  def __init__(self, sink):
    SinkProviderBase.__init__(self)
    self._sink = sink

  def CreateSink(self, properties):
    return self._sink

  @property
  def sink_class(self):
    return _StubSink


def fresh(x):
  """An equal but distinct string object (sources are built from run-time strings such as '%s:%d' % ...)."""
  if x is None or len(x) < 2:
    return x
  return ''.join([x[:1], x[1:]])


class _Ep(object):
  def __init__(self, text):
    self.text = text

  def __str__(self):
    return fresh(self.text)


def _close(a, b):
  return abs(a - b) <= 1e-9 * max(1.0, abs(a), abs(b))


def enumerate_plans(tier, k, n):
  # one long-lived, busy source per run (shard 0): hundreds of thousands of samples, then half an hour at one sample per second
  if k == 0:
    yield {'long_stream': 300000 if tier == 'quick' else 1000000, 'seed': 7}


def _exec_long(plan):
  import random as _r
  from scales import varz as _varz
  with World(seed=plan['seed']):
    rnd = _r.Random(plan['seed'])
    src = lambda: Source(method=fresh('mm'), service=fresh('busy'), endpoint=fresh('e:1'), client_id=None)
    rec = TV(src()).t
    for _ in range(plan['long_stream']):
      rec(rnd.uniform(5.0, 9.0))
    data = VarzReceiver.VARZ_DATA
    reports = 0
    for sec in range(1, 1501):
      advance(1.0)
      TV(src()).t(rnd.uniform(5.0, 9.0))
      if sec % 100 == 0:
        agg = _aggregate(data, VarzReceiver.VARZ_METRICS)
        got = agg[METRIC['t']].get(('busy', None))
        res = [v for s_, v in data[METRIC['t']].items() if s_.service == 'busy']
        if len(res) != 1:
          raise Violation(ID, 'series-split', 'one busy source produced %d series' % len(res))
        retained = list(res[0].data)
        lo, hi = min(retained), max(retained)
        if got is None or len(got.total) != 6:
          raise Violation(ID, 'percentile-shape', 'busy source after %d s: %r' % (sec, None if got is None else got.total))
        for j, p_ in enumerate(got.total[1:]):
          if not (lo - 1e-9 <= p_ <= hi + 1e-9):
            raise Violation(ID, 'percentile-out-of-range', 'a source that has recorded %d samples and still records one per second: report after %d s has percentile entry %r outside its retained range [%r, %r]' % (
                plan['long_stream'] + sec, sec, p_, lo, hi))
        for j in range(1, 5):
          if got.total[j + 1] < got.total[j] - 1e-9:
            raise Violation(ID, 'percentile-decreasing', 'busy source: percentiles %r decrease' % (got.total[1:],))
        reports += 1
    # the workload changes: far more samples in a different range than the reservoir holds, then one more report
    for _ in range(40000):
      rec(rnd.uniform(100.0, 101.0))
    agg = _aggregate(data, VarzReceiver.VARZ_METRICS)
    got = agg[METRIC['t']].get(('busy', None))
    res = [v for s_, v in data[METRIC['t']].items() if s_.service == 'busy']
    retained = list(res[0].data)
    lo, hi = min(retained), max(retained)
    for p_ in (got.total[1:] if got is not None else [float('nan')]):
      if not (lo - 1e-9 <= p_ <= hi + 1e-9):
        raise Violation(ID, 'percentile-out-of-range', 'after the source\'s values moved to another range: report has percentile entry %r outside the retained range [%r, %r]' % (p_, lo, hi))
  return Outcome(nontrivial=['long-lived busy source'], classes=['long_stream'], counts={'long_stream_samples': plan['long_stream'] + 1500})


def execute(plan):
  if plan.get('long_stream'):
    return _exec_long(plan)
  with World(seed=plan['seed']):
    data = VarzReceiver.VARZ_DATA
    model_sum = {}      # (metric, service, client) -> sum
    model_gauge = {}    # (service, client) -> last
    tuples_used = {}    # metric -> set of field tuples
    per_tuple_updates = {}
    flags = set()
    cls = TV
    for u in plan['updates']:
      k = u['k']
      svc, cl = SERVICES[u['s']], CLIENTS[u['c']]
      if k in ('g', 't'):
        meth, ep = None, None      # single source per aggregation key
      else:
        meth, ep = METHODS[u['m']], ENDPOINTS[u['e']]
      if u.get('build', 'ctor') == 'ctor':
        src = Source(method=fresh(meth), service=fresh(svc), endpoint=fresh(ep), client_id=fresh(cl))
      elif u['build'] == 'subclass':
        # an application's own subclass of Source (adds a repr, nothing else) next to the plain ones the library builds
        src = _NamedSource(method=fresh(meth), service=fresh(svc), endpoint=fresh(ep), client_id=fresh(cl))
        flags.add('source_subclass')
      elif u['build'] == 'assign':
        src = Source(service=fresh(svc), client_id=fresh(cl))
        src.method = fresh(meth)
        src.endpoint = fresh(ep)
        flags.add('source_fields_assigned')
      else:
        src = Source()
        src.method, src.service, src.endpoint, src.client_id = fresh(meth), fresh(svc), fresh(ep), fresh(cl)
        flags.add('source_fields_assigned')
      if u.get('redefine'):
        cls = type(TV)('TV_again', (VarzBase,), {'_VARZ_BASE_NAME': TV._VARZ_BASE_NAME, '_VARZ': dict(_KINDS)})
        if per_tuple_updates:
          flags.add('names_declared_again_after_updates')
      v = u['v']
      if u['static']:
        getattr(cls, k)(src, v)
      else:
        getattr(cls(src), k)(v)
      ft = (meth, svc, ep, cl)
      tuples_used.setdefault(k, set()).add(ft)
      per_tuple_updates[(k, ft)] = per_tuple_updates.get((k, ft), 0) + 1
      if k == 'g':
        model_gauge[(svc, cl)] = v
      elif k != 't':
        model_sum[(k, svc, cl)] = model_sum.get((k, svc, cl), 0) + v

    # single-source sample stream
    stream = plan['stream']
    span = 0
    if isinstance(stream, dict):
      import random as _r
      rnd = _r.Random(stream['seed'])
      lo_, hi_ = stream.get('range', [-1e3, 1e6])
      span = stream.get('span_s', 0)
      stream = [rnd.uniform(lo_, hi_) for _ in range(stream['n'])]
    s_src = lambda: Source(method=fresh('mm'), service=fresh('stream'), endpoint=fresh('e:1'), client_id=None)
    chunk = max(1, len(stream) // 10)
    for j, x in enumerate(stream):
      if span and j and j % chunk == 0:
        advance(span / 10.0)       # a source that keeps recording over minutes; aggregated right after its last sample
      TV(s_src()).t(x)

    if plan.get('other_report_first'):
      # another report over the same data, rolled up by (method, endpoint), is produced first
      _aggregate(data, VarzReceiver.VARZ_METRICS, key_selector=lambda src_: (src_.method, src_.endpoint))
    agg = _aggregate(data, VarzReceiver.VARZ_METRICS)

    for k, fts in tuples_used.items():
      n_series = len(data[METRIC[k]])
      if k == 't' and stream:
        n_series -= len([s for s in data[METRIC[k]] if s.service == 'stream'])
      if n_series > len(fts):
        raise Violation(ID, 'series-split', 'metric %s has %d series for %d distinct sources (equal sources land in different series)' % (
            METRIC[k], n_series, len(fts)))
      if n_series < len(fts):
        raise Violation(ID, 'series-merged', 'metric %s has %d series for %d distinct sources' % (METRIC[k], n_series, len(fts)))
    if stream:
      ns = len([s for s in data[METRIC['t']] if s.service == 'stream'])
      if ns != 1:
        raise Violation(ID, 'series-split', '%d samples from equal sources produced %d series' % (len(stream), ns))

    for (k, svc, cl), want in model_sum.items():
      got = agg[METRIC[k]].get((svc, cl))
      if got is None or not _close(got.total, want):
        raise Violation(ID, 'sum-mismatch', '%s for (%s, %s): aggregate %r, sum of increments %r' % (
            METRIC[k], svc, cl, None if got is None else got.total, want))
    for key, a in agg[METRIC['c']].items():
      if ('c',) + key not in model_sum:
        raise Violation(ID, 'sum-mismatch', 'counter aggregate for unknown key %r' % (key,))
    for (svc, cl), want in model_gauge.items():
      got = agg[METRIC['g']].get((svc, cl))
      if got is None or not _close(got.total, want):
        key = 'series-split' if len(data[METRIC['g']]) > len(tuples_used['g']) else 'gauge-not-last'
        raise Violation(ID, key, 'gauge for (%s, %s): aggregate %r, last value set %r' % (
            svc, cl, None if got is None else got.total, want))

    def check_pcts(label, total, retained):
      if len(total) != 6:
        raise Violation(ID, 'percentile-shape', '%s: %r' % (label, total))
      lo, hi = min(retained), max(retained)
      eps = 1e-9 * max(1.0, abs(lo), abs(hi))
      for j, p in enumerate(total):
        if not (lo - eps <= p <= hi + eps) or math.isnan(p):
          raise Violation(ID, 'percentile-out-of-range', '%s: entry %d = %r outside retained range [%r, %r]' % (label, j, p, lo, hi))
      for j in range(1, 5):
        if total[j + 1] < total[j] - eps:
          raise Violation(ID, 'percentile-decreasing', '%s: percentiles %r decrease' % (label, total[1:]))

    if stream:
      res = [v for s, v in data[METRIC['t']].items() if s.service == 'stream']
      got = agg[METRIC['t']].get(('stream', None))
      if got is None:
        raise Violation(ID, 'percentile-shape', 'no aggregate for the sample stream')
      check_pcts('stream of %d samples' % len(stream), got.total, list(res[0].data))
      if len(stream) <= 1000 and sorted(res[0].data) != sorted(stream):
        raise Violation(ID, 'samples-lost', 'reservoir holds %d of %d samples' % (len(res[0].data), len(stream)))

    # end to end through real dispatchers: two clients with different names in one process, same methods and endpoints
    calls = plan['calls']
    if calls:
      names = ['e2e', 'e2e-b']
      per = [[c for c in calls if c.get('d', 0) == d] for d in (0, 1)]
      disps = []
      for d in (0, 1):
        sink = _StubSink(per[d])
        disp = MessageDispatcher(object, _StubProvider(sink), 10, {SinkProperties.Label: names[d]})
        disp.Open()
        disps.append(disp)
      ars = []
      for c in calls:
        ars.append(disps[c.get('d', 0)].DispatchMethodCall(fresh(METHODS[c['m']]), (), {}))
        settle()
      if not all(a.ready() for a in ars):
        raise Violation(ID, 'e2e-incomplete', 'stub calls did not complete')
      agg = _aggregate(data, VarzReceiver.VARZ_METRICS)
      base = 'scales.MessageDispatcher.'
      for d in (0, 1):
        mine = per[d]
        want = {'dispatch_messages': len(mine),
                'success_messages': len([c for c in mine if c['ok']]),
                'exception_messages': len([c for c in mine if not c['ok']])}
        for name, w in want.items():
          got = agg[base + name].get((names[d], None))
          g = 0 if got is None else got.total
          if g != w:
            raise Violation(ID, 'sum-mismatch', '%s for client %r: aggregate %r after %d calls (%d by the other client), expected %d' % (
                base + name, names[d], g, len(mine), len(calls) - len(mine), w))
        combos = set((c['m'], c['e']) for c in mine)
        for name, bound in (('success_messages', len(set((c['m'], c['e']) for c in mine if c['ok']))),
                            ('exception_messages', len(set((c['m'], c['e']) for c in mine if not c['ok']))),
                            ('request_latency', len(combos)),
                            ('dispatch_messages', len(set(c['m'] for c in mine)))):
          n_series = len([s_ for s_ in data[base + name] if s_.service == names[d]])
          if n_series > bound:
            raise Violation(ID, 'series-split', '%s has %d series after %d calls over %d distinct sources' % (
                base + name, n_series, len(mine), bound))
          if name == 'request_latency' and n_series < bound:
            raise Violation(ID, 'series-merged', '%s has %d series for client %r, which used %d distinct (method, endpoint) pairs' % (
                base + name, n_series, names[d], bound))

  dup = any(n >= 2 for n in per_tuple_updates.values()) or len(stream) >= 2
  nt = None
  if dup:
    nt = ['>=2 updates from equal-but-distinct sources']
  classes = sorted(set('kind=' + u['k'] for u in plan['updates'])) + sorted(flags)
  if len(stream) > 1000:
    classes.append('stream>1000')
  if calls:
    classes.append('e2e')
    if len(set(c.get('d', 0) for c in calls)) == 2:
      classes.append('e2e_two_clients')
  if span:
    classes.append('stream_over_minutes')
  return Outcome(nontrivial=nt, classes=classes)
