"""C16 - singleton pool and shared sinks keep one connection, opened and closed once."""
import gc

import gevent
from hypothesis import strategies as st

from vf.evidence import Outcome
from vf.world import World, Violation, HarnessError, settle, advance
from vf.boot import loop
from vf.gen import sized_list, weighted

from scales.asynchronous import AsyncResult
from scales.constants import ChannelState, SinkProperties
from scales.core import ScalesUriParser
from scales.message import MethodCallMessage, MethodReturnMessage
from scales.pool.singleton import SingletonPoolSink
from scales.sink import (ClientMessageSink, ClientMessageSinkStack, RefCountedSink, SharedSinkProvider,
                         SinkProviderBase)

ID = 'C16'
LEVEL = 'exploration'
RULE = ('Three Hypothesis-generated op-list machines. (i) SingletonPoolSink from its Builder over harness connections (open '
        'delay 0-10 ms): Open / Close by holders / request (also several while the first open is pending) / complete / fail '
        '(connection) / advance, also Opens and Closes of several holders within one turn of the event loop; at the end the remaining holders close and no connection may be left open; at most one live connection, requests between two failures share it, the first request after a '
        'failure gets a fresh one and exactly one is created. (ii) RefCountedSink over a mock sink: Open / Close by several '
        'holders incl. surplus closes and re-open after the last close; underlying Open exactly on 0->1, Close exactly on 1->0, '
        'all holders get the same pending open result. (iii) SharedSinkProvider with a key selector: CreateSink for keys from a '
        'small alphabet and a falsy key, holders dropped + gc.collect(); same key -> identical sink while any holder lives, '
        'falsy key never shared. Non-trivial = concurrent first requests, a failure between two requests, or a surplus close. '
        'distinct = distinct non-trivial plans.')
ASSUMPTIONS = [
    'connections open successfully (failed opens belong to C09)',
    'CPython reference counting + gc.collect() make dropped holders disappear from the weak cache',
]
BUDGET = {
    'quick': {'examples': 1500},
    'thorough': {'examples': 3000, 'shards': 8},
}

EP = ScalesUriParser.Endpoint('h', 7100)


def strategy(tier):
  single = st.fixed_dictionaries({
      'kind': st.just('singleton'),
      'open_delay_ms': st.sampled_from([[0], [5], [0, 10], [3, 0]]),
      # a transport's Close() reports Closed at once but may take time (it yields) to release its socket
      'close_delay_ms': st.sampled_from([0, 0, 4]),
      'ops': sized_list(weighted(
          (2, st.just(['open'])), (1, st.just(['close'])),
          (7, st.just(['request'])), (2, st.tuples(st.just('burst'), st.integers(2, 4)).map(list)),
          (4, st.tuples(st.just('complete'), st.integers(0, 20)).map(list)),
          (2, st.tuples(st.just('fail'), st.booleans()).map(list)),
          # a caller is interrupted (its own timeout, or killed) while it waits for the connection to open
          (2, st.tuples(st.just('interrupt'), st.sampled_from(['timeout', 'kill'])).map(list)),
          # the connection reports Busy (open and healthy, momentarily occupied) or plain Open again
          (2, st.tuples(st.just('busy'), st.booleans()).map(list)),
          (2, st.tuples(st.just('seq'), st.lists(st.sampled_from(['open', 'open', 'close']), min_size=2, max_size=4)).map(list)),
          (2, st.tuples(st.just('advance'), st.sampled_from([1, 4, 12])).map(list))), 0, 50),
  })
  ref = st.fixed_dictionaries({
      'kind': st.just('refcount'),
      'open_delay_ms': st.sampled_from([0, 5]),
      'close_delay_ms': st.sampled_from([0, 0, 4]),
      'open_fails': st.sampled_from([False, False, True]),
      # which calls of the underlying Close() (1st, 2nd, ...) raise: the transport is gone all the same
      'close_raises': st.sampled_from([[], [], [], [1], [2], [1, 2]]),
      'ops': sized_list(weighted((4, st.just(['open'])), (5, st.just(['close'])),
                                 # what the shared sink reports about itself: a resurrector that is down and retrying says Closed
                                 (2, st.tuples(st.just('state'), st.sampled_from(['closed', 'closed', 'open', 'busy'])).map(list)),
                                 (1, st.tuples(st.just('advance'), st.sampled_from([1, 10])).map(list))), 0, 40),
  })
  shared = st.fixed_dictionaries({
      'kind': st.just('shared'),
      'ops': sized_list(weighted((5, st.tuples(st.just('create'), st.sampled_from(['a', 'b', 'c', '', None]), st.sampled_from([0, 0, 1])).map(list)),
                                 (3, st.tuples(st.just('drop'), st.integers(0, 20)).map(list)),
                                 (2, st.tuples(st.just('state'), st.integers(0, 20), st.sampled_from(['closed', 'closed', 'idle', 'open'])).map(list)),
                                 (1, st.just(['gc']))), 0, 30),
  })
  real = st.fixed_dictionaries({
      'kind': st.just('singleton_mux'),
      'connect_ms': st.sampled_from([1, 5, 8]), 'pong_ms': st.sampled_from([1, 5, 10]),
      'ops': sized_list(weighted((3, st.just(['open'])), (3, st.just(['close'])),
                                 (4, st.tuples(st.just('advance'), st.sampled_from([0, 1, 3, 6, 12, 30])).map(list))), 1, 14),
  })
  shared_lbs = st.fixed_dictionaries({
      'kind': st.just('shared_balancers'),
      'balancers': st.integers(2, 4),
      'ops': sized_list(weighted((3, st.tuples(st.just('open'), st.integers(0, 3)).map(list)),
                                 (3, st.tuples(st.just('close'), st.integers(0, 3)).map(list)),
                                 (4, st.tuples(st.just('request'), st.integers(0, 3)).map(list)),
                                 (3, st.tuples(st.just('answer'), st.integers(0, 5)).map(list))), 1, 20),
  })
  return weighted((4, single), (2, ref), (2, shared), (1, real), (1, shared_lbs))


class Conn(ClientMessageSink):
  close_delay = 0.0

  def __init__(self, idx, delay):
    ClientMessageSink.__init__(self)
    self.idx = idx
    self.delay = delay
    self._state = ChannelState.Idle
    self.open_calls = 0
    self.close_calls = 0
    self.failed = False
    self.log = []
    self._ar = None

  def __repr__(self):
    return 'conn%d' % self.idx

  @property
  def state(self):
    return self._state

  def Open(self):
    self.open_calls += 1
    if self._ar is None:
      ar = self._ar = AsyncResult()

      def done():
        if self._state == ChannelState.Idle:
          self._state = ChannelState.Open
        ar.set(True)
      if self.delay:
        g = gevent.Greenlet(done)
        g.start_later(self.delay)
      else:
        done()
    return self._ar

  def Close(self):
    self.close_calls += 1
    self._state = ChannelState.Closed
    self._ar = None
    if self.close_delay:
      gevent.sleep(self.close_delay)

  def AsyncProcessRequest(self, sink_stack, msg, stream, headers):
    r = msg.properties['__vf_req']
    r.conn = self
    r.conn_was_live = not self.failed and self.close_calls == 0
    self.log.append(r)

  def AsyncProcessResponse(self, *a):
    pass


class Provider(SinkProviderBase):
  def __init__(self, delays):
    SinkProviderBase.__init__(self)
    self.delays = delays
    self.close_delay = 0.0
    self.conns = []

  def CreateSink(self, properties):
    c = Conn(len(self.conns), self.delays[len(self.conns) % len(self.delays)] / 1000.0)
    c.close_delay = self.close_delay
    self.conns.append(c)
    return c

  @property
  def sink_class(self):
    return Conn


class Terminal(ClientMessageSink):
  def AsyncProcessRequest(self, *a):
    raise HarnessError('terminal')

  def AsyncProcessResponse(self, sink_stack, context, stream, msg):
    context.completions.append(msg)


class Req(object):
  def __init__(self, rid, epoch):
    self.id = rid
    self.epoch = epoch       # number of failures seen when submitted
    self.conn = None
    self.conn_was_live = None
    self.completions = []
    self.stack = None


def _exec_singleton(plan):
  flags = set()
  prov_top = SingletonPoolSink.Builder()
  prov = Provider(plan['open_delay_ms'])
  prov.close_delay = plan.get('close_delay_ms', 0) / 1000.0
  prov_top.next_provider = prov
  pool = prov_top.CreateSink({SinkProperties.Label: 'svc', SinkProperties.Endpoint: EP})
  reqs = []
  failures = [0]
  holders = [0]
  closed_for_good = [False]

  def live():
    return [c for c in prov.conns if not c.failed and c.close_calls == 0]

  def submit():
    r = Req(len(reqs), failures[0])
    reqs.append(r)
    msg = MethodCallMessage(None, 'm', (r.id,), {})
    msg.properties['__vf_req'] = r
    st_ = ClientMessageSinkStack()
    st_.Push(Terminal(), r)
    r.stack = st_
    r.greenlet = gevent.spawn(pool.AsyncProcessRequest, st_, msg, None, {})
    return r

  def check(step, op):
    where = '(step %d: %r)' % (step, op)
    if len(live()) > 1:
      raise Violation(ID, 'two-connections', 'singleton pool has %d live connections %s' % (len(live()), where))
    for r in reqs:
      if r.conn is not None and r.conn_was_live is False and not getattr(r, 'raced_close', False):
        raise Violation(ID, 'dead-connection-used', 'request %d was sent to %r after it had failed / been closed %s' % (r.id, r.conn, where))
      if len(r.completions) > 1:
        raise Violation(ID, 'completed-twice', 'request %d %s' % (r.id, where))
    if len(prov.conns) > 1 + failures[0]:
      raise Violation(ID, 'extra-connections', '%d connections created after %d failures / full closes %s' % (len(prov.conns), failures[0], where))

  st_open = [False]

  def do(op):
    k = op[0]
    pool_open = st_open[0]
    if k == 'open':
      pool.Open()
      holders[0] += 1
      pool_open = st_open[0] = True
    elif k == 'close':
      if holders[0] > 0:
        holders[0] -= 1
        if prov.close_delay:
          gevent.spawn(pool.Close)      # the holder's greenlet; others may use the pool while the transport is still closing
          if holders[0] == 0:
            flags.add('slow_close_of_last_holder')
        else:
          pool.Close()
        if holders[0] == 0:
          pool_open = st_open[0] = False
          for r in reqs:
            if r.conn is None and not r.completions:
              r.raced_close = True      # nothing is promised to a request that races the last Close
              r.pending_at_last_close = True
          # closing the last holder closes the connection; a later Open/request starts afresh
          failures[0] += 1
    elif k == 'request':
      if pool_open:
        pending_open = any(c.state == ChannelState.Idle for c in prov.conns)
        submit()
        if pending_open:
          flags.add('request_while_open_pending')
    elif k == 'burst':
      if pool_open:
        had = len(live())
        for _ in range(op[1]):
          submit()
        if not had:
          flags.add('concurrent_first_requests')
    elif k == 'complete':
      out = [r for r in reqs if r.conn is not None and not r.completions]
      if out:
        r = out[op[1] % len(out)]
        r.stack.AsyncProcessResponseMessage(MethodReturnMessage('ok'))
    elif k == 'fail':
      l = live()
      if l and l[0].state == ChannelState.Open:
        c = l[0]
        c.failed = True
        c._state = ChannelState.Closed
        failures[0] += 1
        flags.add('failure')
        if op[1]:
          c.on_faulted.Set(Exception('conn failed'))
    elif k == 'busy':
      l = live()
      if l and l[0].state in (ChannelState.Open, ChannelState.Busy):
        l[0]._state = ChannelState.Busy if op[1] else ChannelState.Open
        flags.add('connection_reported_busy')
    elif k == 'interrupt':
      waiting = [r for r in reqs if r.conn is None and not r.completions and not r.greenlet.dead and not getattr(r, 'raced_close', False)]
      if waiting and any(c.state == ChannelState.Idle for c in prov.conns):
        r = waiting[0]
        r.raced_close = True          # nothing is promised to a caller that gave up
        flags.add('caller_interrupted_while_opening')
        r.greenlet.kill(gevent.Timeout(0.001) if op[1] == 'timeout' else gevent.GreenletExit(), block=False)
    elif k == 'advance':
      advance(op[1] / 1000.0)
    elif k == 'seq':
      # several holders act within one turn of the event loop
      flags.add('opens_and_closes_in_one_turn')
      for sub in op[1]:
        do([sub])

  for step, op in enumerate(plan['ops']):
    do(op)
    settle()
    check(step, op)
  advance(0.03)
  check(len(plan['ops']), ['final'])
  if st_open[0]:
    stuck = [r.id for r in reqs if r.conn is None and not r.completions and not getattr(r, 'raced_close', False)]
    if stuck:
      raise Violation(ID, 'request-stuck', 'requests %r never reached a connection although the pool is open' % stuck)
  # the remaining holders close (nothing in flight, one after the other): the connection goes with the last of them
  for r in reqs:
    if r.conn is not None and not r.completions:
      r.stack.AsyncProcessResponseMessage(MethodReturnMessage('ok'))
  settle()
  while holders[0] > 0:
    holders[0] -= 1
    pool.Close()
    settle()
  advance(0.03)
  if not any(getattr(r, 'pending_at_last_close', False) for r in reqs):
    left = [c for c in prov.conns if not c.failed and c.close_calls == 0]
    if left:
      raise Violation(ID, 'connection-outlives-holders', 'every holder of the singleton pool has closed it, but %r %s never closed' % (
          left, 'was' if len(left) == 1 else 'were'))
    flags.add('all_holders_closed')
  if 'failure' in flags and len([r for r in reqs if r.conn is not None]) >= 2:
    flags.add('failure_between_requests')
  nt = sorted(f for f in flags if f in ('concurrent_first_requests', 'failure_between_requests', 'request_while_open_pending'))
  return Outcome(nontrivial=nt or None, classes=['singleton'] + sorted(flags))


class MockSink(ClientMessageSink):
  def __init__(self, delay, close_delay=0.0):
    ClientMessageSink.__init__(self)
    self._st = ChannelState.Open
    self.delay = delay
    self.close_delay = close_delay
    self.closing = 0
    self.open_during_close = 0
    self.opens = 0
    self.closes = 0
    self._ar = None

  @property
  def state(self):
    return self._st

  def Open(self):
    self.opens += 1
    if self.closing:
      self.open_during_close += 1
    ar = self._ar = AsyncResult()
    done = (lambda: ar.set_exception(OSError(111, 'connection refused'))) if getattr(self, 'open_fails', False) else (lambda: ar.set(True))
    if self.delay:
      g = gevent.Greenlet(done)
      g.start_later(self.delay)
    else:
      done()
    return ar

  def Close(self):
    self.closes += 1
    if self.closes in getattr(self, 'close_raises', ()):
      raise RuntimeError('underlying close failed')
    if self.close_delay:
      self.closing += 1
      try:
        gevent.sleep(self.close_delay)
      finally:
        self.closing -= 1

  def AsyncProcessRequest(self, *a):
    pass

  def AsyncProcessResponse(self, *a):
    pass


def _exec_refcount(plan):
  cd = plan.get('close_delay_ms', 0) / 1000.0
  under = MockSink(plan['open_delay_ms'] / 1000.0, cd)
  under.open_fails = bool(plan.get('open_fails'))      # every holder is then handed the same failed open result
  under.close_raises = tuple(plan.get('close_raises') or ())
  raised = [0]
  states_seen = set()

  def do_close():
    try:
      rc.Close()
    except RuntimeError as e:
      if 'underlying close failed' not in str(e):
        raise
      raised[0] += 1      # the last holder sees the transport's error; the sink is closed all the same
  rc = RefCountedSink(under)
  count = 0
  want_opens = want_closes = 0
  surplus = False
  results = []        # (generation, open result) per Open, in issue order
  gen = 0
  slow = False

  def do_open(g_):
    ar = rc.Open()
    results.append((g_, ar))

  for step, op in enumerate(plan['ops']):
    where = '(step %d: %r)' % (step, op)
    if op[0] == 'open':
      count += 1
      if count == 1:
        want_opens += 1
        gen += 1
      if under.closing:
        slow = True
      # every holder acts from its own greenlet: an Open may arrive while the underlying Close is still in progress
      gevent.spawn(do_open, gen)
    elif op[0] == 'close':
      if count == 0:
        surplus = True
      else:
        count -= 1
        if count == 0:
          want_closes += 1
      gevent.spawn(do_close)
    elif op[0] == 'state':
      under._st = {'closed': ChannelState.Closed, 'open': ChannelState.Open, 'busy': ChannelState.Busy}[op[1]]
      states_seen.add(op[1])
    else:
      advance(op[1] / 1000.0)
    settle()
    if under.open_during_close:
      raise Violation(ID, 'refcount-open-during-close', 'underlying Open() was called while the underlying Close() was still in progress %s' % where)
    if not cd:
      if under.opens != want_opens:
        raise Violation(ID, 'refcount-open-count', 'underlying Open called %d times, expected %d %s' % (under.opens, want_opens, where))
      if under.closes != want_closes:
        raise Violation(ID, 'refcount-close-count', 'underlying Close called %d times, expected %d %s' % (under.closes, want_closes, where))
  advance(0.05)
  where = '(final)'
  if under.open_during_close:
    raise Violation(ID, 'refcount-open-during-close', 'underlying Open() was called while the underlying Close() was still in progress %s' % where)
  if under.opens != want_opens:
    raise Violation(ID, 'refcount-open-count', 'underlying Open called %d times, expected %d %s' % (under.opens, want_opens, where))
  if under.closes != want_closes:
    raise Violation(ID, 'refcount-close-count', 'underlying Close called %d times, expected %d %s' % (under.closes, want_closes, where))
  if len(results) != len([o for o in plan['ops'] if o[0] == 'open']):
    raise Violation(ID, 'refcount-open-result', 'only %d of the Open() calls returned %s' % (len(results), where))
  first = {}
  for g_, ar in results:
    if ar is None:
      raise Violation(ID, 'refcount-open-result', 'Open() returned None %s' % where)
    if first.setdefault(g_, ar) is not ar:
      raise Violation(ID, 'refcount-open-result', 'two holders of the same open connection got different open results %s' % where)
  nt = (['surplus close'] if surplus else []) + (['open during a slow close'] if slow else [])
  return Outcome(nontrivial=nt or None, classes=['refcount'] + (['surplus_close'] if surplus else []) + (['open_during_slow_close'] if slow else []) +
                 (['underlying_close_raised'] if raised[0] else []) + (['shared_sink_reported_closed'] if 'closed' in states_seen else []))


class _KeyProvider(SinkProviderBase):
  def __init__(self):
    SinkProviderBase.__init__(self)
    self.created = 0

  def CreateSink(self, properties):
    self.created += 1
    return MockSink(0)

  @property
  def sink_class(self):
    return MockSink


def _exec_shared(plan):
  # two providers in one process (two clients): each shares sinks among its own holders only
  sps, unders = [], []
  for _ in range(2):
    sp = SharedSinkProvider(lambda props: props.get('key'))
    under = _KeyProvider()
    sp.next_provider = under
    sps.append(sp)
    unders.append(under)
  holders = []     # (provider index, key, sink)
  dropped = False
  two = False
  for step, op in enumerate(plan['ops']):
    where = '(step %d: %r)' % (step, op)
    if op[0] == 'create':
      key = op[1]
      pi = op[2] if len(op) > 2 else 0
      two = two or pi == 1
      under = unders[pi]
      before = under.created
      other_before = unders[1 - pi].created
      s = sps[pi].CreateSink({'key': key})
      if unders[1 - pi].created != other_before:
        raise Violation(ID, 'keys-mixed', 'CreateSink on one provider created a sink through the other provider %s' % where)
      if not key:
        if isinstance(s, RefCountedSink) or under.created != before + 1 or any(s is h for _, _, h in holders):
          raise Violation(ID, 'falsy-key-shared', 'a sink for falsy key %r was shared / wrapped %s' % (key, where))
      else:
        same = [h for p_, k, h in holders if k == key and p_ == pi]
        if same:
          if s is not same[0]:
            raise Violation(ID, 'key-not-shared', 'key %r gave a different sink while a holder is alive %s' % (key, where))
          if under.created != before:
            raise Violation(ID, 'key-not-shared', 'a new underlying sink was created for live key %r %s' % (key, where))
        else:
          if not isinstance(s, RefCountedSink):
            raise Violation(ID, 'key-not-refcounted', 'keyed sink is %r %s' % (type(s).__name__, where))
          if under.created != before + 1:
            raise Violation(ID, 'keys-mixed', 'key %r has no live holder on this provider, yet no underlying sink was created for it (another provider\'s sink was handed out?) %s' % (key, where))
        others = [h for p_, k, h in holders if k and not (k == key and p_ == pi)]
        if any(s is h for h in others):
          raise Violation(ID, 'keys-mixed', 'key %r returned the sink of another key or of another provider %s' % (key, where))
      holders.append((pi, key, s))
      del s
      same = others = h = None      # no stray references: the cache is weak
    elif op[0] == 'state':
      # the shared connection fails / is closed / comes back while holders keep the sink
      keyed = [h for _, k, h in holders if k and isinstance(h, RefCountedSink)]
      if keyed:
        h = keyed[op[1] % len(keyed)]
        h.next_sink._st = {'closed': ChannelState.Closed, 'idle': ChannelState.Idle, 'open': ChannelState.Open}[op[2]]
      keyed = h = None
    elif op[0] == 'drop':
      if holders:
        holders.pop(op[1] % len(holders))
        dropped = True
    else:
      gc.collect(0)      # young generation only: a full collection of this process costs ~80 ms
  return Outcome(nontrivial=None, classes=['shared'] + (['dropped'] if dropped else []) + (['two_providers'] if two else []))


def _exec_singleton_mux(plan):
  """SingletonPoolSink over the real ThriftMux transport on the simulated network: holders open and close it while the
  connect / handshake of the one connection is still in progress.  At most one connection is alive at any time, and none
  once every holder has closed."""
  from vf.simnet import SimNet, Server
  from vf.peers.mux import MuxPeer
  from test.scales.thrift.gen_py.hello import Hello
  from scales.thriftmux.sink import SocketTransportSink as MuxTransport
  net = SimNet()
  net.install()
  peer = MuxPeer(Hello.Processor, lambda m, a: 'echo', ping=lambda k: ['pong', plan['pong_ms'] / 1000.0])
  srv = Server(net, ('127.0.0.1', 7200), peer)
  srv.default_connect = ['accept', plan['connect_ms'] / 1000.0]
  top = SingletonPoolSink.Builder()
  top.next_provider = MuxTransport.Builder()
  pool = top.CreateSink({SinkProperties.Label: 'svc', SinkProperties.Endpoint: ScalesUriParser.Endpoint('127.0.0.1', 7200)})
  holders = 0
  flags = set()

  def live():
    return [sk for sk in net.sockets if sk.connected and not sk.closed]

  def check(where):
    if len(live()) > 1:
      raise Violation(ID, 'two-connections', 'singleton pool over the ThriftMux transport: %d connections alive %s' % (len(live()), where))
  for step, op in enumerate(plan['ops']):
    where = '(step %d: %r)' % (step, op)
    if op[0] == 'open':
      pool.Open()
      holders += 1
    elif op[0] == 'close':
      if holders:
        holders -= 1
        if holders == 0 and [sk for sk in net.sockets if not sk.closed and not sk.connected] or (holders == 0 and pool.state == ChannelState.Idle and net.sockets):
          flags.add('last_holder_closed_while_connecting')
        try:
          pool.Close()
        except Exception as e:
          raise Violation(ID, 'close-raised', 'Close() raised %r %s' % (e, where))
    else:
      advance(op[1] / 1000.0)
    settle()
    check(where)
  while holders:
    holders -= 1
    pool.Close()
    settle()
  advance(0.2)
  check('(final)')
  if live():
    raise Violation(ID, 'connection-outlives-holders', 'every holder of the singleton pool has closed it, but %d ThriftMux connection(s) are still open' % len(live()))
  return Outcome(nontrivial=sorted(flags) or None, classes=['singleton_over_thriftmux'] + sorted(flags))


class _SharedTransport(MockSink):
  """The transport behind a shared sink: records the requests it is handed (they are answered later by the harness)."""

  def __init__(self):
    MockSink.__init__(self, 0)
    self.inflight = []

  def AsyncProcessRequest(self, sink_stack, msg, stream, headers):
    if self.closes > self.reopened:
      sink_stack.AsyncProcessResponseMessage(MethodReturnMessage(error=Exception('connection closed')))
      return
    self.inflight.append((msg.properties['__vf_req'], sink_stack))

  reopened = 0


class _SharedTransportProvider(SinkProviderBase):
  def __init__(self):
    SinkProviderBase.__init__(self)
    self.made = []

  def CreateSink(self, properties):
    t = _SharedTransport()
    self.made.append(t)
    return t

  @property
  def sink_class(self):
    return _SharedTransport


def _exec_shared_balancers(plan):
  """Several heap balancers (as the Kafka client has one per topic) whose member for one broker is the same shared,
  reference-counted sink: the connection is opened when the first balancer opens it and closed only when the last
  balancer that holds it is closed - also when a balancer is closed with a request still in flight that is answered
  later."""
  from scales.loadbalancer.heap import HeapBalancerSink
  from scales.loadbalancer.serverset import StaticServerSetProvider
  ep = ScalesUriParser.Endpoint('broker', 9092)
  shared = SharedSinkProvider(lambda props: props[SinkProperties.Endpoint])
  tp = _SharedTransportProvider()
  shared.next_provider = tp
  n = plan['balancers']
  lbs, opened = [], []
  for i in range(n):
    b = HeapBalancerSink.Builder(server_set_provider=StaticServerSetProvider([ScalesUriParser.Server(ep)]))
    b.next_provider = shared
    lbs.append(b.CreateSink({SinkProperties.Label: 'topic%d' % i}))
    opened.append(False)
  reqs = []
  flags = set()

  def transport():
    return tp.made[0] if tp.made else None

  def check(where):
    t = transport()
    if len(tp.made) > 1:
      raise Violation(ID, 'shared-not-shared', '%d transports were created for one broker %s' % (len(tp.made), where))
    holders = sum(1 for o in opened if o)
    if t is not None and holders and t.closes > closes_expected[0]:
      raise Violation(ID, 'shared-closed-under-holder', 'the shared connection was closed although %d balancer(s) still hold it %s' % (holders, where))
  closes_expected = [0]
  used = set()
  for step, op in enumerate(plan['ops']):
    where = '(step %d: %r)' % (step, op)
    k = op[0]
    if k == 'open':
      i = op[1] % n
      if not opened[i] and i not in used:      # one life per balancer object (a closed client is not opened again)
        used.add(i)
        lbs[i].Open()
        opened[i] = True
    elif k == 'close':
      i = op[1] % n
      if opened[i]:
        if [r for r in reqs if r['lb'] == i and not r['done']]:
          flags.add('balancer_closed_with_a_request_in_flight')
        opened[i] = False
        if not any(opened):
          closes_expected[0] += 1
        try:
          lbs[i].Close()
        except Exception as e:
          raise Violation(ID, 'close-raised', 'closing balancer %d raised %r %s' % (i, e, where))
    elif k == 'request':
      i = op[1] % n
      if opened[i]:
        r = {'lb': i, 'done': False, 'completions': []}
        reqs.append(r)
        msg = MethodCallMessage(None, 'm', (), {})
        msg.properties['__vf_req'] = r
        st_ = ClientMessageSinkStack()
        st_.Push(_Collector(), r)
        lbs[i].AsyncProcessRequest(st_, msg, None, {})
    elif k == 'answer':
      t = transport()
      if t is not None and t.inflight:
        r, st_ = t.inflight.pop(op[1] % len(t.inflight))
        r['done'] = True
        if not opened[r['lb']]:
          flags.add('answer_after_its_balancer_was_closed')
        try:
          st_.AsyncProcessResponseMessage(MethodReturnMessage('ok'))
        except Exception as e:
          raise Violation(ID, 'answer-raised', 'delivering an answer raised %r %s' % (e, where))
    settle()
    check(where)
  t = transport()
  # everything in flight is answered, then the remaining balancers are closed
  while t is not None and t.inflight:
    r, st_ = t.inflight.pop(0)
    r['done'] = True
    st_.AsyncProcessResponseMessage(MethodReturnMessage('ok'))
    settle()
    check('(final answers)')
  for i in range(n):
    if opened[i]:
      opened[i] = False
      if not any(opened):
        closes_expected[0] += 1
      lbs[i].Close()
      settle()
      check('(final close of balancer %d)' % i)
  if t is not None and t.opens and t.closes < 1:
    raise Violation(ID, 'connection-outlives-holders', 'every balancer that held the shared connection has been closed, but the connection never was')
  nt = sorted(flags)
  return Outcome(nontrivial=nt or None, classes=['shared_sink_held_by_balancers'] + nt)


class _Collector(ClientMessageSink):
  def AsyncProcessRequest(self, *a):
    raise HarnessError('terminal')

  def AsyncProcessResponse(self, sink_stack, context, stream, msg):
    context['completions'].append(msg)


def execute(plan):
  with World(seed=0):
    if plan['kind'] == 'shared_balancers':
      return _exec_shared_balancers(plan)
    if plan['kind'] == 'singleton_mux':
      return _exec_singleton_mux(plan)
    if plan['kind'] == 'singleton':
      return _exec_singleton(plan)
    if plan['kind'] == 'refcount':
      return _exec_refcount(plan)
    return _exec_shared(plan)
