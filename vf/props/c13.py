"""C13 - ThriftMux frames are byte-exact for every message, tag and context."""
import struct

from hypothesis import strategies as st

from vf.evidence import Outcome
from vf.gen import weighted
from vf.world import World, Violation, HarnessError, settle, advance
from vf.boot import loop
from vf.simnet import SimNet, Server
from vf.peers.mux import MuxPeer
from vf.codecs import mux_ref as M
from vf.fixtures.richsvc import Rich
from vf.props import c14

from scales.compat import BytesIO
from scales.constants import SinkProperties
from scales.core import ScalesUriParser
from scales.dispatch import MessageDispatcher
from scales.message import MethodCallMessage, TimeoutError
from scales.sink import ClientMessageSink, ClientMessageSinkStack, SinkProvider, TimeoutSinkProvider
from scales.thriftmux.protocol import MessageType
from scales.thriftmux.sink import (
    ClientIdInterceptorSink, SocketTransportSink, ThriftMuxMessageSerializerSink)

from test.scales.thrift.gen_py.hello import Hello

ID = 'C13'
LEVEL = 'exploration'
RULE = ('(a) Hypothesis-generated calls (Hello.hi and the Rich fixture methods, values as in C14) with a drawn client id '
        '(none / ASCII / non-ASCII BMP / astral), 0-4 extra public message properties with text keys and values (incl. '
        'empty and multi-byte), a drawn default timeout (none / 50 ms .. 10 s) and per-call reply behaviour (reply with or '
        'without reply contexts / never, so that a Tdiscarded is produced), sent through TimeoutSink -> [ClientId] -> props '
        '-> ThriftMuxMessageSerializerSink -> thriftmux SocketTransportSink on the simulated socket; every frame received '
        'by the peer is decoded with the harness\'s own mux codec and compared with what was supplied. (b) header writer / '
        'reply-header reader round trip over tag ranges (writer checked for all 8 message types, reader for the 5 reply types): boundary ranges in the quick tier, all 2^24 '
        'tags in the thorough tier (exhaustive). Non-trivial = a frame whose contexts contain a multi-byte character or an '
        'empty string, or a header range. distinct = distinct non-trivial plans.')
ASSUMPTIONS = [
    'context keys and values are text (what the serializer accepts); keys are unique',
    'the deadline context is compared with a 2 ms tolerance on the deadline and the whole second of the send time',
    'Thrift payload decoded by the Thrift library (pure-Python binary protocol)',
]
BUDGET = {
    'quick': {'examples': 1200},
    'thorough': {'examples': 2500, 'shards': 16},
}

PORT = 9200
EP = ScalesUriParser.Endpoint('127.0.0.1', PORT)
ALL_TYPES = sorted(v for k, v in vars(MessageType).items() if not k.startswith('_') and isinstance(v, int))
REPLY_TYPES = [MessageType.Rdispatch, MessageType.Rerr, MessageType.BAD_Rerr, MessageType.Rping, MessageType.BAD_Tdiscarded]
CLIENT_ID_KEY = 'com.twitter.finagle.thrift.ClientIdContext'
DEADLINE_KEY = 'com.twitter.finagle.Deadline'


_EXTRA = []      # public properties of the call being issued right now (on top of the plan's)


class _PropsSink(ClientMessageSink):
  """Harness interceptor: adds the plan's public properties to the message
  (the same way ClientIdInterceptorSink adds the client id)."""

  def __init__(self, next_provider, sink_properties, global_properties):
    ClientMessageSink.__init__(self)
    self.props = sink_properties.props
    self.next_sink = next_provider.CreateSink(global_properties)

  def AsyncProcessRequest(self, sink_stack, msg, stream, headers):
    for k, v in list(self.props) + list(_EXTRA):
      msg.properties[k] = v
    self.next_sink.AsyncProcessRequest(sink_stack, msg, stream, headers)

  def AsyncProcessResponse(self, sink_stack, context, stream, msg):
    raise HarnessError('not on the stack')


_PropsSink.Builder = SinkProvider(_PropsSink, props=())

CTX_TEXT = st.one_of(st.text(max_size=10), st.text(alphabet='kéy€\U0001F600v', max_size=8), st.just(''),
                     st.text(alphabet='abc.xyz', min_size=1, max_size=30))


def strategy(tier):
  key = st.one_of(CTX_TEXT, st.sampled_from(['_', '_trace', '_a_', 'a_', '_x.y', 'x__'])).filter(
      lambda k: not k.startswith('__') and k not in (CLIENT_ID_KEY, DEADLINE_KEY, 'vf.call'))
  call = c14._call().flatmap(lambda c: st.sampled_from(['reply', 'reply', 'reply_ctx', 'never']).map(lambda b: dict(c, behave=b)))
  hello = st.fixed_dictionaries({'m': st.just('hi'), 'args': st.tuples(c14.TEXT).map(list), 'outcome': st.just('value'),
                                 'ret': c14.TEXT, 'kw': st.booleans(), 'behave': st.sampled_from(['reply', 'reply_ctx', 'never'])})
  pingrace = st.fixed_dictionaries({
      'kind': st.just('pingrace'), 'lead_ms': st.sampled_from([50, 300, 900]), 'hold_ms': st.sampled_from([1000, 2500, 4000]),
      'cut': st.sampled_from([1, 5, 30, 100]), 'size': st.sampled_from([200, 3000, 70000])})
  return weighted((12, _frames_or_early(key, call, hello)), (1, pingrace))


def _frames_or_early(key, call, hello):
  return st.fixed_dictionaries({
      'kind': st.sampled_from(['frames', 'frames', 'frames', 'early']),
      'connect_ms': st.sampled_from([0, 2, 5]),
      'stagger_ms': st.lists(st.sampled_from([0, 0, 1, 3, 6]), min_size=1, max_size=4),
      'svc': st.sampled_from(['rich', 'rich', 'hello']),
      'client_id': st.one_of(st.none(), st.just('DEFAULT'), st.text(alphabet='abcdefgh-_.0123', min_size=1, max_size=12),
                             st.text(min_size=1, max_size=10), st.text(alphabet='sérvice€\U0001F600', min_size=1, max_size=6)),
      'props': st.lists(st.tuples(key, CTX_TEXT).map(list), max_size=4, unique_by=lambda kv: kv[0]),
      'timeout_ms': st.sampled_from([None, 50, 80, 1000, 10000]),
      # while a call that the peer never answers is pending, another (answered) call goes out on the connection
      'bystander': st.booleans(),
      # calls (by index) preceded by a call that fails in the serializer
      'after_bad': st.one_of(st.just([]), st.just([]), st.lists(st.integers(0, 3), min_size=1, max_size=2, unique=True)),
      # most bytes a single send() accepts
      'send_max': st.sampled_from([None, None, 1, 7, 64, 4096]),
      'calls': st.lists(weighted((2, call), (1, hello)), min_size=1, max_size=4),
  }).map(_fix_svc)


def _fix_svc(p):
  if p['svc'] == 'hello':
    calls = [c for c in p['calls'] if c['m'] == 'hi']
  else:
    calls = [c for c in p['calls'] if c['m'] != 'hi']
  if not calls:
    calls = [{'m': 'hi', 'args': ['x'], 'outcome': 'value', 'ret': 'y', 'kw': False, 'behave': 'reply'}] if p['svc'] == 'hello' \
        else [{'m': 'ping', 'args': [], 'outcome': 'void', 'kw': False, 'behave': 'reply'}]
  return dict(p, calls=calls)


def enumerate_plans(tier, k, n):
  if tier == 'quick':
    ranges = [(0, 4096), (65536 - 2048, 65536 + 2048), (2 ** 23 - 1024, 2 ** 23 + 1024), (2 ** 24 - 4096, 2 ** 24)]
    ranges += [(lo, lo + 64) for lo in range(8192, 2 ** 24 - 4096, 2 ** 24 // 97)]
  else:
    step = 2 ** 16
    ranges = [(lo, lo + step) for lo in range(0, 2 ** 24, step)]
  for i, (lo, hi) in enumerate(ranges):
    if i % n == k:
      yield {'kind': 'headers', 'lo': lo, 'hi': hi}


def _exec_headers(plan):
  net = SimNet()
  net.install()
  tr = SocketTransportSink.Builder().CreateSink({SinkProperties.Label: 'svc', SinkProperties.Endpoint: EP})
  build = tr._BuildHeader
  read = ThriftMuxMessageSerializerSink.ReadHeader
  lo, hi = plan['lo'], plan['hi']
  for t in ALL_TYPES:
    for tag in range(lo, hi):
      h = build(tag, t, 0)
      if len(h) != 8 or h[:4] != b'\x00\x00\x00\x04':
        raise Violation(ID, 'header-bytes', 'header for type %d tag %d is %r' % (t, tag, h))
      ref = M.decode_header(h[4:])
      if ref != (t, tag):
        raise Violation(ID, 'header-bytes', 'header for type %d tag %d decodes (independently) to type %d tag %d' % (t, tag, ref[0], ref[1]))
      if t not in REPLY_TYPES:
        continue
      got = read(BytesIO(h[4:]))
      if got != (t, tag):
        key = 'readheader-type' if got[1] == tag else 'readheader-tag'
        raise Violation(ID, key, 'ReadHeader(BuildHeader(tag=%d, type=%d)) == %r' % (tag, t, got))
  # discard bodies name the discarded tag with all 24 bits
  step = 1 if hi - lo <= 4096 else 16
  for tag in list(range(lo, hi, step)) + [hi - 1]:
    if tag == 0:
      continue
    msg, buf, headers = SocketTransportSink._CreateDiscardMessage(tag)
    body = buf.getvalue()
    d = M.decode_frame(M.encode_frame(M.T_DISCARDED, 0, body)[4:])
    if d['which'] != tag or d['why'] != b'Client timeout':
      raise Violation(ID, 'discard-frame', 'discard body for tag %d names %d, reason %r' % (tag, d['which'], d['why']))
  return (hi - lo) * len(ALL_TYPES)


def _exec_frames(plan):
  _EXTRA[:] = []
  net = SimNet()
  net.install()
  net.send_max = plan.get('send_max')
  calls = plan['calls']
  cur = {'i': 0}

  def respond(method, args):
    c = calls[cur['i']]
    o = c['outcome']
    if o == 'appexc':
      raise RuntimeError('handler blew up')
    if o == 'e1':
      raise Rich.E1(c['exc'][1])
    if o == 'e2':
      raise Rich.E2(c['exc'][0], c['exc'][1])
    if o == 'void':
      return None
    return c14._real(method, c['ret'])

  def script(k, frame, method, args):
    b = calls[cur['i']]['behave']
    if cur.get('bystander'):
      cur['bystander'] = False
      return ['reply', 0.002]
    return ['never'] if b == 'never' else ['reply', 0.002]

  iface, pf = (Rich.Iface, Rich.Processor) if plan['svc'] == 'rich' else (Hello.Iface, Hello.Processor)
  peer = MuxPeer(pf, respond, script)
  Server(net, ('127.0.0.1', PORT), peer)

  chain = [TimeoutSinkProvider()]
  if plan['client_id'] == 'DEFAULT':
    chain.append(ClientIdInterceptorSink.Builder())      # no argument: the documented default id, whatever other clients of this process were given
  elif plan['client_id'] is not None:
    chain.append(ClientIdInterceptorSink.Builder(client_id=plan['client_id']))
  chain.append(_PropsSink.Builder(props=tuple((k, v) for k, v in plan['props'])))
  chain.append(ThriftMuxMessageSerializerSink.Builder())
  chain.append(SocketTransportSink.Builder())
  for a, b in zip(chain, chain[1:]):
    a.next_provider = b
  timeout = None if plan['timeout_ms'] is None else plan['timeout_ms'] / 1000.0
  disp = MessageDispatcher(iface, chain[0], timeout, {
      SinkProperties.Label: 'svc', SinkProperties.ServiceInterface: iface, SinkProperties.Endpoint: EP})
  disp.Open()
  advance(0.01)
  want_ctx = dict((k, v) for k, v in plan['props'])
  if plan['client_id'] is not None:
    want_ctx[CLIENT_ID_KEY] = 'client' if plan['client_id'] == 'DEFAULT' else plan['client_id']
  nt = set()
  for i, c in enumerate(calls):
    cur['i'] = i
    peer.reply_contexts = ((b'k', b'v'), (b'', b'\xe2\x82\xac')) if c['behave'] == 'reply_ctx' else ()
    m = c['m']
    args = [c14._real(m, a) for a in c['args']]
    if plan.get('after_bad') and i in plan['after_bad']:
      # first a call that cannot be serialized (too many arguments), with a property and a deadline of its own:
      # it fails for its caller, and nothing of it may show up in the frame of the call that follows
      _EXTRA[:] = [('x.failed-call', 'b%d' % i)]
      try:
        disp.DispatchMethodCall(m, tuple(args) + (1, 2, 3), {}, timeout=7.0)
      except Exception:
        pass
      _EXTRA[:] = []
      advance(0.002)
      nt.add('after a call that failed to serialize')
    n_before = len(peer.frames)
    t_issue = loop.now()
    if c['kw']:
      ar = disp.DispatchMethodCall(m, (), dict(zip(c14.ARG_NAMES[m], args)))
    else:
      ar = disp.DispatchMethodCall(m, tuple(args), {})
    never = c['behave'] == 'never'
    ar_by = None
    if never and timeout and plan.get('bystander'):
      advance(0.004)
      cur['bystander'] = True
      ar_by = disp.DispatchMethodCall(m, tuple(args), {})
      nt.add('another call written while the unanswered one is pending')
    advance(0.03 if not (never and timeout) else timeout + 0.03)
    where = 'call %d %s [client_id=%r props=%r]' % (i, m, plan['client_id'], plan['props'])
    new = peer.frames[n_before:]
    disp_frames = [f for f in new if f['type'] == M.T_DISPATCH]
    by_frame = None
    if ar_by is not None:
      if len(disp_frames) != 2:
        raise Violation(ID, 'frame-count', '%s and a second call: %d Tdispatch frames' % (where, len(disp_frames)))
      by_frame = disp_frames.pop()
      if not ar_by.ready():
        raise Violation(ID, 'no-completion', '%s: the answered call issued after it (tag %d) did not complete' % (where, by_frame['tag']))
    if peer.bad or peer.leftover():
      raise Violation(ID, 'bad-framing', '%s: undecodable frame / trailing bytes: %r %r' % (where, peer.bad, peer.leftover()))
    if len(disp_frames) != 1:
      if ar.ready() and ar.exception is not None and not disp_frames:
        raise Violation(ID, 'not-sent', '%s: no Tdispatch frame reached the peer, caller got %r' % (where, ar.exception))
      raise Violation(ID, 'frame-count', '%s: %d Tdispatch frames' % (where, len(disp_frames)))
    f = disp_frames[0]
    tag = f['tag']
    if not (2 <= tag <= 2 ** 24 - 2):
      raise Violation(ID, 'tag-range', '%s: tag %d' % (where, tag))
    if f['dest'] != b'' or f['dtab'] != []:
      raise Violation(ID, 'dest-dtab', '%s: dest %r dtab %r' % (where, f['dest'], f['dtab']))
    got = {}
    for kb, vb in f['contexts']:
      try:
        ks = kb.decode('utf-8')
      except UnicodeDecodeError:
        raise Violation(ID, 'context-bytes', '%s: context key bytes %r are not the UTF-8 of any supplied key (length prefix wrong?)' % (where, kb))
      if ks in got:
        raise Violation(ID, 'context-duplicate', '%s: key %r twice' % (where, ks))
      got[ks] = vb
    exp = dict((k, v.encode('utf-8')) for k, v in want_ctx.items())
    dl = got.pop(DEADLINE_KEY, None)
    if timeout:
      if dl is None or len(dl) != 16:
        raise Violation(ID, 'deadline-context', '%s: deadline context %r' % (where, dl))
      ts, dln = struct.unpack('!qq', dl)
      if ts % 10 ** 9 != 0 or not (int(t_issue) * 10 ** 9 <= ts <= int(f['t']) * 10 ** 9):
        raise Violation(ID, 'deadline-context', '%s: timestamp %d is not the whole second of the send time %.6f' % (where, ts, f['t']))
      want_dl = (t_issue + timeout) * 1e9
      if abs(dln - want_dl) > 2e6:
        raise Violation(ID, 'deadline-context', '%s: deadline %d ns, expected %.0f ns' % (where, dln, want_dl))
    elif dl is not None:
      raise Violation(ID, 'deadline-context', '%s: deadline context present without a timeout' % where)
    if got != exp:
      raise Violation(ID, 'context-mismatch', '%s: peer recovered contexts %r, supplied %r' % (where, got, exp))
    if f.get('decode_error'):
      raise Violation(ID, 'payload-undecodable', '%s: %s' % (where, f['decode_error']))
    if f['method'] != m or len(f['args']) != len(args) or not all(c14._same(x, y) for x, y in zip(f['args'], args)):
      raise Violation(ID, 'payload-mismatch', '%s: peer decoded %s%r' % (where, f['method'], f['args']))
    for kk, vv in want_ctx.items():
      if kk == '' or vv == '' or any(ord(ch) > 127 for ch in kk + vv):
        nt.add('multi-byte or empty context')
    if tag >= 2 ** 16:
      nt.add('tag>=2^16')
    # other frames
    for o in new:
      if o is f or o is by_frame:
        continue
      if o['type'] == M.T_PING:
        if o['tag'] != 1 or o['body']:
          raise Violation(ID, 'ping-frame', '%s: Tping tag %d body %r' % (where, o['tag'], o['body']))
      elif o['type'] == M.T_DISCARDED:
        if o['tag'] != 0 or o['which'] != tag or o['why'] != b'Client timeout':
          raise Violation(ID, 'discard-frame', '%s: Tdiscarded frame tag %d names %d (request tag %d) reason %r' % (
              where, o['tag'], o['which'], tag, o['why']))
        nt.add('tdiscarded')
      else:
        raise Violation(ID, 'unexpected-frame', '%s: frame type %d' % (where, o['type']))
    if never and timeout:
      if not [o for o in new if o['type'] == M.T_DISCARDED]:
        raise Violation(ID, 'discard-missing', '%s: timed out after being sent but no Tdiscarded was written' % where)
      if not ar.ready() or not isinstance(ar.exception, TimeoutError):
        raise Violation(ID, 'no-timeout', '%s: unanswered call did not time out: %r' % (where, ar.exception if ar.ready() else 'pending'))
    elif not never:
      if not ar.ready():
        raise Violation(ID, 'no-completion', '%s: answered call did not complete' % where)
      o = c['outcome']
      if o in ('value', 'void'):
        want = None if o == 'void' else c14._real(m, c['ret'])
        if ar.exception is not None or not c14._same(ar.value, want):
          raise Violation(ID, 'reply-mismatch', '%s: expected %r, caller got value %r exception %r' % (where, want, ar.value, ar.exception))
      elif ar.exception is None:
        raise Violation(ID, 'reply-mismatch', '%s: expected an error, caller got %r' % (where, ar.value))
  disp.Close()
  settle()
  return nt


class _Terminal(ClientMessageSink):
  def AsyncProcessRequest(self, *a):
    raise HarnessError('terminal')

  def AsyncProcessResponse(self, sink_stack, context, stream, msg):
    context.append(msg)


def _exec_early(plan):
  """Several callers hand their requests to the sink chain from different greenlets while the connection is still
  connecting / exchanging the initial ping: every frame must still carry its own caller's contexts and payload."""
  plan = dict(plan, props=[kv for kv in plan['props'] if kv[0] != 'vf.call'])      # the marker key below is the harness's own
  import gevent
  net = SimNet()
  net.install()
  calls = plan['calls']
  iface, pf = (Rich.Iface, Rich.Processor) if plan['svc'] == 'rich' else (Hello.Iface, Hello.Processor)
  peer = MuxPeer(pf, lambda method, args: None, lambda k, frame, method, args: ['never'])
  srv = Server(net, ('127.0.0.1', PORT), peer)
  srv.default_connect = ['accept', plan.get('connect_ms', 5) / 1000.0]
  chain = [TimeoutSinkProvider()]
  if plan['client_id'] == 'DEFAULT':
    chain.append(ClientIdInterceptorSink.Builder())      # no argument: the documented default id, whatever other clients of this process were given
  elif plan['client_id'] is not None:
    chain.append(ClientIdInterceptorSink.Builder(client_id=plan['client_id']))
  chain.append(_PropsSink.Builder(props=tuple((k, v) for k, v in plan['props'])))
  chain.append(ThriftMuxMessageSerializerSink.Builder())
  chain.append(SocketTransportSink.Builder())
  for a, b in zip(chain, chain[1:]):
    a.next_provider = b
  top = chain[0].CreateSink({SinkProperties.Label: 'svc', SinkProperties.ServiceInterface: iface, SinkProperties.Endpoint: EP})
  top.Open()
  want_ctx = dict((k, v) for k, v in plan['props'])
  if plan['client_id'] is not None:
    want_ctx[CLIENT_ID_KEY] = 'client' if plan['client_id'] == 'DEFAULT' else plan['client_id']
  results = []

  def submit(i, c):
    m = c['m']
    args = [c14._real(m, a) for a in c['args']]
    if c['kw']:
      msg = MethodCallMessage(iface, m, (), dict(zip(c14.ARG_NAMES[m], args)))
    else:
      msg = MethodCallMessage(iface, m, tuple(args), {})
    msg.properties['vf.call'] = 'c%d' % i
    got = []
    results.append(got)
    st_ = ClientMessageSinkStack()
    st_.Push(_Terminal(), got)
    top.AsyncProcessRequest(st_, msg, None, {})

  stagger = plan.get('stagger_ms') or [0]
  for i, c in enumerate(calls):
    gevent.spawn_later(stagger[i % len(stagger)] / 1000.0, submit, i, c)
  advance(0.1)
  if peer.bad or peer.leftover():
    raise Violation(ID, 'bad-framing', 'early callers: undecodable frame / trailing bytes: %r %r' % (peer.bad, peer.leftover()))
  frames = [f for f in peer.frames if f['type'] == M.T_DISPATCH]
  if len(frames) != len(calls):
    raise Violation(ID, 'frame-count', 'early callers: %d Tdispatch frames for %d calls' % (len(frames), len(calls)))
  if len(set(f['tag'] for f in frames)) != len(frames):
    raise Violation(ID, 'tag-range', 'early callers: tags %r' % [f['tag'] for f in frames])
  seen = {}
  for f in frames:
    ctx = dict((kb.decode('utf-8', 'replace'), vb) for kb, vb in f['contexts'])
    who = ctx.pop('vf.call', b'?').decode('utf-8', 'replace')
    if who in seen or not (who[:1] == 'c' and who[1:].isdigit() and int(who[1:]) < len(calls)):
      raise Violation(ID, 'context-mismatch', 'early callers: frame with tag %d carries the contexts of call %r, which %s' % (
          f['tag'], who, 'another frame already carried' if who in seen else 'nobody issued'))
    seen[who] = f
    c = calls[int(who[1:])]
    args = [c14._real(c['m'], a) for a in c['args']]
    ctx.pop(DEADLINE_KEY, None)
    exp = dict((k, v.encode('utf-8')) for k, v in want_ctx.items())
    if ctx != exp:
      raise Violation(ID, 'context-mismatch', 'early callers: frame of call %s carries contexts %r, supplied %r' % (who, ctx, exp))
    if f.get('decode_error') or f['method'] != c['m'] or len(f['args']) != len(args) or not all(c14._same(x, y) for x, y in zip(f['args'], args)):
      raise Violation(ID, 'payload-mismatch', 'early callers: frame with the contexts of call %s (%s%r) carries payload %s%r %s' % (
          who, c['m'], tuple(c['args']), f.get('method'), f.get('args'), f.get('decode_error') or ''))
  top.Close()
  settle()
  return set(['callers during the handshake']) if len(calls) >= 2 else set()


def _exec_pingrace(plan):
  """A long-lived connection: the periodic keep-alive ping falls due while a large frame is part-way through a
  blocked socket write.  The byte stream must still be a sequence of whole frames."""
  import random as _random
  import scales.thriftmux.sink as _tms
  net = SimNet()
  net.install()
  iface, pf = Hello.Iface, Hello.Processor
  peer = MuxPeer(pf, lambda method, args: 'pong', lambda k, frame, method, args: ['reply', 0.002])
  Server(net, ('127.0.0.1', PORT), peer)
  drawn = []

  class _Rnd(object):
    def randint(self, a, b):
      v = _random.randint(a, b)
      drawn.append(((a, b), loop.now(), v))
      return v

    def __getattr__(self, name):
      return getattr(_random, name)
  real_random = _tms.random
  _tms.random = _Rnd()
  World.current.cleanups.append(lambda: setattr(_tms, 'random', real_random))
  chain = [TimeoutSinkProvider(), ThriftMuxMessageSerializerSink.Builder(), SocketTransportSink.Builder()]
  for a, b in zip(chain, chain[1:]):
    a.next_provider = b
  disp = MessageDispatcher(iface, chain[0], None, {
      SinkProperties.Label: 'svc', SinkProperties.ServiceInterface: iface, SinkProperties.Endpoint: EP})
  disp.Open()
  advance(0.01)
  pings = [d for d in drawn if d[0] == (30, 40)]
  if not pings:
    return set()        # this transport does not draw its ping period that way: nothing to aim at
  due = pings[-1][1] + pings[-1][2]
  advance(due - plan['lead_ms'] / 1000.0 - loop.now())
  st_ = {'done': False}

  def stall_fn(sock, data, idx):
    if not st_['done'] and len(data) > plan['cut'] + 40:
      st_['done'] = True
      return (plan['cut'], plan['hold_ms'] / 1000.0)
    return None
  net.stall = stall_fn
  text = 'p' * plan['size']
  ar = disp.DispatchMethodCall('hi', (text,), {})
  advance(plan['hold_ms'] / 1000.0 + plan['lead_ms'] / 1000.0 + 1.0)
  if peer.bad or peer.leftover():
    raise Violation(ID, 'bad-framing', 'a keep-alive ping fell due while a %d-byte frame was %d bytes into a blocked write: the peer cannot split the byte stream into frames (%r, trailing %r)' % (
        plan['size'], plan['cut'], peer.bad, dict((k, len(v)) for k, v in peer.leftover().items())))
  frames = [f for f in peer.frames if f['type'] == M.T_DISPATCH]
  if len(frames) != 1 or f_bad(frames[0], text):
    raise Violation(ID, 'payload-mismatch', 'ping during a blocked write: the peer decoded %d Tdispatch frames, args %r...' % (
        len(frames), [str(f.get('args'))[:40] for f in frames]))
  for f in peer.frames:
    if f['type'] == M.T_PING and (f['tag'] != 1 or f['body']):
      raise Violation(ID, 'ping-frame', 'Tping tag %d body %r' % (f['tag'], f['body']))
  disp.Close()
  settle()
  return set(['ping due during a blocked write']) if st_['done'] else set()


def f_bad(f, text):
  return bool(f.get('decode_error')) or f.get('method') != 'hi' or list(f.get('args') or []) != [text]


def execute(plan):
  with World(seed=0):
    if plan['kind'] == 'pingrace':
      nt = _exec_pingrace(plan)
      return Outcome(nontrivial=sorted(nt) or None, classes=['pingrace'] + sorted(nt))
    if plan['kind'] == 'early':
      nt = _exec_early(plan)
      return Outcome(nontrivial=sorted(nt) or None, classes=['early', 'svc=' + plan['svc']] + sorted(nt))
    if plan['kind'] == 'headers':
      n = _exec_headers(plan)
      return Outcome(nontrivial=['header range'], classes=['headers'], counts={'header_type_tag_pairs_checked': n})
    nt = _exec_frames(plan)
  return Outcome(nontrivial=sorted(nt) or None,
                 classes=['frames', 'svc=' + plan['svc'], 'client_id' if plan['client_id'] is not None else 'no_client_id'] + sorted(nt))
