"""C19 - ZooKeeper server set reports exactly the membership changes that occurred."""
import collections
import json

import gevent
from hypothesis import strategies as st

from vf.evidence import Outcome
from vf.boot import loop
from vf.world import World, Violation, HarnessError, settle, advance
from vf.gen import sized_list, weighted
from vf.peers.fakezk import FakeKazoo
from vf.lbharness import ChannelProvider

from scales.constants import SinkProperties
from scales.core import ScalesUriParser
from scales.loadbalancer.heap import HeapBalancerSink
from scales.loadbalancer.serverset import ZooKeeperServerSetProvider
from scales.loadbalancer.zookeeper import ServerSet, Member

ID = 'C19'
LEVEL = 'exploration'
RULE = ('Hypothesis-generated histories (<= 50 ops) over a znode tree under /svc with member names from a pool of 6 (names are '
        'reused) plus non-member children: create_member / delete_member / delete_parent (children first, events back to '
        'back) / create_parent / callback_raises(next k consumer callbacks raise) / callback_blocks(next k consumer callbacks take 8 ms, or 12 s) / advance(0-20 ms), with per-call latencies '
        '(0-3 ms) inside get / exists / get_children so that members vanish between listing and reading. The real ServerSet '
        'and the real kazoo DataWatch / ChildrenWatch recipes run on an in-process fake Kazoo client. Consumer 1 records '
        'on_join / on_leave; consumer 2 is a real HeapBalancerSink behind ZooKeeperServerSetProvider. At quiescence the '
        'join/leave log replayed in order must leave exactly the members in the tree, no name joins or leaves twice in a '
        'row, and the balancer\'s known servers must equal the tree\'s endpoints. Non-trivial = a parent delete while members '
        'exist followed by a re-create, or a raising callback. distinct = distinct non-trivial plans.')
ASSUMPTIONS = [
    'real kazoo recipes on a fake client: session loss / reconnect of a real ensemble is not generated',
    'watch events are delivered by one callback greenlet that logs and survives callback exceptions (as kazoo\'s handler does)',
    'a consumer callback records the event before it raises',
]
BUDGET = {
    'quick': {'examples': 1500},
    'thorough': {'examples': 3000, 'shards': 16},
}

PATH = '/svc'
NAMES = ['member_%d' % i for i in range(6)]


SALT = ['']


def data(i, ep=None):
  i = i if ep is None else ep
  return json.dumps({'serviceEndpoint': {'host': 'h%d%s' % (i, SALT[0]), 'port': 1000 + i}, 'additionalEndpoints': {}, 'status': 'ALIVE'}).encode()


_TupleMember = collections.namedtuple('_TupleMember', 'name service_endpoint additional_endpoints')


def strategy(tier):
  pairs = [
      (7, st.tuples(st.just('create'), st.integers(0, 5)).map(list)),
      (5, st.tuples(st.just('delete'), st.integers(0, 5)).map(list)),
      (2, st.just(['delete_parent'])),
      (2, st.just(['create_parent'])),
      (1, st.tuples(st.just('other'), st.booleans()).map(list)),
      (2, st.tuples(st.just('raises'), st.integers(1, 3)).map(list)),
      (2, st.tuples(st.just('slow'), st.integers(1, 3), st.sampled_from([8, 8, 8, 12000])).map(list)),
      (4, st.tuples(st.just('advance'), st.sampled_from([0, 1, 2, 5, 20])).map(list)),
      (2, st.just(['check'])),
      # a server re-registers under a new znode name with the same endpoint, both events in one listing
      (2, st.tuples(st.just('replace'), st.integers(0, 5)).map(list)),
      # a child is listed, vanishes before it is read and is re-created before the path is listed again
      (1, st.tuples(st.just('vanish'), st.integers(0, 5)).map(list)),
      # the whole path is deleted while the server set is still reading two freshly listed members
      (1, st.just(['vanish_parent'])),
      # the empty path is deleted, re-created with a member after gap1 ms, member and path deleted after gap2 ms, with drawn read latencies
      (3, st.tuples(st.just('cycle'), st.sampled_from([0, 1, 2, 3, 5]), st.sampled_from([0, 1, 2, 4, 6]), st.integers(0, 5),
                    st.lists(st.sampled_from([0, 1, 2, 3]), min_size=3, max_size=3)).map(list)),
      # the same server registered under two znode names (identical data); only for the name-keyed consumer
      (2, st.tuples(st.just('twin'), st.integers(0, 5)).map(list)),
      # the balancer is closed and a new one is opened on the same provider object
      (1, st.just(['reopen_balancer'])),
      # the data of the watched path itself changes (no membership change)
      (1, st.just(['set_parent'])),
      # the name-keyed consumer stops its server set and starts a new one with the same callbacks
      (1, st.just(['restart_consumer'])),
  ]
  return st.fixed_dictionaries({
      'initial_parent': st.booleans(),
      'initial': st.lists(st.integers(0, 5), max_size=4, unique=True),
      'latencies_ms': st.lists(st.sampled_from([0, 0, 1, 1, 3]), min_size=1, max_size=5),
      'with_balancer': st.booleans(),
      'salt': st.sampled_from(['', '', '-x', '-y', '.z']),
      'member_factory': st.sampled_from([None, None, None, 'tuple']),
      'ops': sized_list(weighted(*pairs), 0, 50 if tier == 'quick' else 140),
      # two clients of one process built from the same zk:// URI (each through ScalesUriParser, so each owns what the
      # parser gave it); one of them (which) is closed before step close_at, the other must keep following the tree
      # another greenlet of the consumer keeps taking snapshots of the set (get_members) while the history runs
      'snapshot_reader': st.sampled_from([False, False, True]),
      'twin_uri_client': st.sampled_from([None, None, [0, 0], [1, 0], [0, 3], [1, 3], [0, 12], [1, 12]]),
  })


def execute(plan):
  flags = set()
  # host names differ from case to case: member data cached across server sets / cases would show
  SALT[0] = plan.get('salt', '')
  with World(seed=0) as w:
    zk = FakeKazoo([x / 1000.0 for x in plan['latencies_ms']])
    if plan['initial_parent']:
      zk.z_create(PATH)
      for i in plan['initial']:
        zk.z_create('%s/%s' % (PATH, NAMES[i]), data(i))
    log = []
    raise_next = [0]
    slow_next = [0, 0.008]
    slow_until = [0.0]

    def cb(kind):
      def f(member):
        log.append((kind, member.name))
        if slow_next[0] > 0:
          # a consumer that blocks in its callback for a while (the balancer's own callbacks wait for its start-up)
          slow_next[0] -= 1
          flags.add('callback_blocked' if slow_next[1] < 1 else 'callback_blocked_for_seconds')
          slow_until[0] = max(slow_until[0], loop.now() + slow_next[1])
          gevent.sleep(slow_next[1])
        if raise_next[0] > 0:
          raise_next[0] -= 1
          flags.add('callback_raised')
          raise RuntimeError('consumer callback failed')
      return f

    class ObservedServerSet(ServerSet):
      """Records which incarnations of the watched path the data watch reported (classification of a known finding only)."""
      def _data_changed(self, data, stat):
        self.__dict__.setdefault('vf_reported', []).append(None if stat is None else stat.czxid)
        return ServerSet._data_changed(self, data, stat)

    # an application's own member type (the documented member_factory hook): a plain tuple type with the fields consumers use
    factory = None
    if plan.get('member_factory') == 'tuple':
      def factory(node, data_):
        m = Member.from_node(node, data_)
        return _TupleMember(m.name, m.service_endpoint, m.additional_endpoints)
      flags.add('tuple_members')
    sss = [ObservedServerSet(zk, PATH, cb('join'), cb('leave'), lambda n: n.startswith('member_'), factory)]
    lb = None
    zkp = None
    twin = plan.get('twin_uri_client') if plan['with_balancer'] else None
    zkps = [None, None]
    lbs = [None, None]

    class _R(object):
      cfg = {}
      sync_fail = False
      step = 0

    def balancer_on(provider):
      provider.ServerSet = ObservedServerSet
      b = HeapBalancerSink.Builder(server_set_provider=provider)
      b.next_provider = ChannelProvider(_R())
      s = b.CreateSink({SinkProperties.Label: 'svc'})
      s.Open()
      return b, s
    if plan['with_balancer'] and not twin:
      zkps[0] = zkp = ZooKeeperServerSetProvider(zk, PATH, member_factory=factory)
      prov, lbs[0] = balancer_on(zkp)
    elif twin:
      # the providers come from the URI parser; the Kazoo client each of them makes for itself is the fake one
      saved_kazoo = ZooKeeperServerSetProvider.KazooClient
      ZooKeeperServerSetProvider.KazooClient = staticmethod(lambda **kw: zk)
      try:
        for n in (0, 1):
          zkps[n] = ScalesUriParser().Parse('zk://zk1:2181,zk2:2181' + PATH)
          b, lbs[n] = balancer_on(zkps[n])
          if n == 0:
            prov, zkp = b, zkps[0]
      finally:
        ZooKeeperServerSetProvider.KazooClient = saved_kazoo
      flags.add('two_clients_from_one_zk_uri')

    def unobserved_incarnations(sset):
      """Deleted incarnations of the watched path that had member children and that this server set's data watch
      never reported (the kazoo DataWatch coalesces create+delete into 'no change')."""
      seen = set(x for x in sset.__dict__.get('vf_reported', []) if x is not None)
      return [i for i in zk.incarnations.get(PATH, [])
              if i['deleted'] is not None and i['czxid'] not in seen and [c for c in i['children'] if c.startswith('member_')]]

    def tree_eps():
      return dict((n, tuple(sorted(json.loads(zk.tree['%s/%s' % (PATH, n)][0].decode())['serviceEndpoint'].items())))
                  for n in tree_members())

    def ep_of(i):
      return tuple(sorted({'host': 'h%d%s' % (i, SALT[0]), 'port': 1000 + i}.items()))

    def tree_members():
      ch = zk.children(PATH)
      return set(c for c in (ch or []) if c.startswith('member_'))

    def check(step, op):
      advance(0.06)
      for _round in range(8):
        for _ in range(40):
          # quiescence: every watch event has been delivered (one handler greenlet serves all watchers, also those of
          # server sets that were stopped meanwhile, and each of its reads takes the plan's latency)
          if zk.evq.empty() and not zk.busy:
            break
          advance(0.03)
        advance(0.02)
        if loop.now() >= slow_until[0]:
          break
        # a consumer callback is still blocking (it may only have started while the events were being served):
        # wait it out, then let whatever queued up behind it be delivered
        advance(slow_until[0] - loop.now() + 0.05)
      where = '(step %d: %r)' % (step, op)
      held = set()
      for kind, name in log:
        if kind == 'restart':
          held = set()      # a new server set reports everything that is present as joining
          continue
        if kind == 'join':
          if name in held:
            raise Violation(ID, 'double-join', '%s reported as joining twice without a leave %s; log %r' % (name, where, log[-12:]))
          held.add(name)
        else:
          if name not in held:
            raise Violation(ID, 'double-leave', '%s reported as leaving without having joined %s; log %r' % (name, where, log[-12:]))
          held.discard(name)
      want = tree_members()
      if held != want:
        missing, extra = sorted(want - held), sorted(held - want)
        key = 'stale-member' if extra and not missing else ('missing-member' if missing and not extra else 'membership-mismatch')
        unobs = unobserved_incarnations(sss[0])
        if extra and not missing and unobs and all(any(n in i['children'] for i in unobs) for n in extra):
          key = 'unobserved-path-incarnation'
        raise Violation(ID, key, 'consumer holds %r, tree has %r %s; last events %r; callback errors %r' % (
            sorted(held), sorted(want), where, log[-10:], zk.callback_errors[-3:]))
      for n, lb in enumerate(lbs):
        if lb is not None and lb._LoadBalancerSink__init_done.is_set():
          zkp_ = zkps[n]
          got = set((ep.host, ep.port) for ep in lb._servers)
          wantep = set((dict(e)['host'], dict(e)['port']) for e in tree_eps().values())
          if got != wantep:
            if zkp_ is not None and zkp_._server_set is not None and wantep < got and unobserved_incarnations(zkp_._server_set):
              raise Violation(ID, 'unobserved-path-incarnation', 'balancer keeps %r, tree has %r %s' % (sorted(got - wantep), sorted(wantep), where))
            raise Violation(ID, 'balancer-mismatch', 'balancer %d knows %r, tree has %r %s%s' % (
                n, sorted(got), sorted(wantep), where, '; its twin was closed' if twin and None in lbs else ''))

    reader = None
    if plan.get('snapshot_reader'):
      def read_snapshots():
        while True:
          try:
            sss[0].get_members()
          except Exception:
            pass                  # (a set that was stopped meanwhile; what the snapshots contain is not what is checked)
          gevent.sleep(0.001)
      reader = gevent.spawn(read_snapshots)
      flags.add('snapshots_taken_concurrently')
    parent_deleted_with_members = False
    check(-1, ['initial'])
    def close_twin():
      advance(0.03)
      lbs[twin[0]].Close()
      lbs[twin[0]] = None
      settle()
      flags.add('one_of_two_uri_clients_closed')
    for step, op in enumerate(plan['ops']):
      k = op[0]
      if twin and step == twin[1]:
        close_twin()
      if k == 'create':
        # two live znodes never advertise the same endpoint (the balancer keys its members by endpoint)
        if ep_of(op[1]) not in tree_eps().values():
          zk.z_create('%s/%s' % (PATH, NAMES[op[1]]), data(op[1]))
      elif k == 'twin':
        if not plan['with_balancer']:
          live = tree_members()
          a, b = NAMES[op[1]], NAMES[op[1]] + 'b'
          if (a in live) != (b in live):
            zk.z_create('%s/%s' % (PATH, b if a in live else a), data(op[1]))
            flags.add('two_znodes_with_identical_data')
      elif k == 'replace':
        # member_i <-> member_ib: a znode name is bound to one endpoint for the whole history
        a, b = NAMES[op[1]], NAMES[op[1]] + 'b'
        live = tree_members()
        if b in live:
          a, b = b, a
        if a in live and b not in live:
          zk.z_delete('%s/%s' % (PATH, a))
          zk.z_create('%s/%s' % (PATH, b), data(op[1]))
          flags.add('renamed_same_endpoint')
      elif k == 'vanish':
        p = '%s/%s' % (PATH, NAMES[op[1]])
        if PATH in zk.tree and p not in zk.tree and ep_of(op[1]) not in tree_eps().values():
          advance(0.03)                       # watches armed, nothing in flight
          zk.override = {'get_children': 0.0, 'get': 0.002, 'exists': 0.0}
          zk.z_create(p, data(op[1]))
          advance(0.001)                      # listed; the read of the new child is in flight
          zk.override = {'get_children': 0.005, 'get': 0.0, 'exists': 0.0}
          zk.z_delete(p)                      # the read will find nothing; the path is being listed again (slowly)
          advance(0.003)
          zk.z_create(p, data(op[1]))         # back before the second listing is taken
          advance(0.004)
          zk.override = {}
          flags.add('vanished_between_listing_and_read_then_recreated')
      elif k == 'delete':
        zk.z_delete('%s/%s' % (PATH, NAMES[op[1]]))
        zk.z_delete('%s/%s' % (PATH, NAMES[op[1]] + 'b'))
      elif k == 'other':
        p = PATH + '/other_1'
        (zk.z_create(p, b'x') if op[1] else zk.z_delete(p))
      elif k == 'set_parent':
        if zk.z_set(PATH, b'v%d' % step):
          flags.add('watched_path_data_changed')
      elif k == 'restart_consumer':
        advance(0.03)
        sss[0].stop()
        settle()
        log.append(('restart', None))
        sss[0] = ObservedServerSet(zk, PATH, cb('join'), cb('leave'), lambda n: n.startswith('member_'), factory)
        flags.add('consumer_restarted_with_same_callbacks')
      elif k == 'reopen_balancer':
        if lbs[0] is not None:
          advance(0.03)
          lbs[0].Close()
          settle()
          lbs[0] = prov.CreateSink({SinkProperties.Label: 'svc'})
          lbs[0].Open()
          advance(0.03)
          flags.add('balancer_reopened_on_same_provider')
      elif k == 'vanish_parent':
        eps = tree_eps()
        fresh = [i for i in range(6) if NAMES[i] not in eps and NAMES[i] + 'b' not in eps and ep_of(i) not in eps.values()][:2]
        if PATH in zk.tree and len(fresh) == 2:
          advance(0.03)
          zk.override = {'get_children': 0.0, 'get': 0.002, 'exists': 0.0}
          for i in fresh:
            zk.z_create('%s/%s' % (PATH, NAMES[i]), data(i))
          advance(0.003)                      # the first new member has been read, the second read is in flight
          for c in zk.children(PATH):
            zk.z_delete('%s/%s' % (PATH, c))
          zk.z_delete(PATH)                   # everything goes at once: no listing in between
          parent_deleted_with_members = True
          advance(0.01)
          zk.override = {}
          flags.add('path_deleted_while_members_being_read')
      elif k == 'cycle':
        # the (empty) watched path is deleted, comes back with a member a moment later, and both go again a moment after
        # that - all while the watch callbacks of the first deletion are still being served one by one
        _, gap1, gap2, i, lat = op
        ch = zk.children(PATH)
        if ch is not None and not [c for c in ch if c.startswith('member_')] and ep_of(i) not in tree_eps().values():
          advance(0.03)
          zk.override = {'get_children': lat[0] / 1000.0, 'get': lat[1] / 1000.0, 'exists': lat[2] / 1000.0}
          for c in ch:
            zk.z_delete('%s/%s' % (PATH, c))
          zk.z_delete(PATH)
          advance(gap1 / 1000.0)
          zk.z_create(PATH)
          zk.z_create('%s/%s' % (PATH, NAMES[i]), data(i))
          advance(gap2 / 1000.0)
          zk.z_delete('%s/%s' % (PATH, NAMES[i]))
          zk.z_delete(PATH)
          parent_deleted_with_members = True
          advance(0.02)
          zk.override = {}
          flags.add('path_cycled_while_callbacks_pending')
      elif k == 'delete_parent':
        ch = zk.children(PATH)
        if ch is not None:
          if [c for c in ch if c.startswith('member_')]:
            parent_deleted_with_members = True
          for c in ch:
            zk.z_delete('%s/%s' % (PATH, c))
          zk.z_delete(PATH)
      elif k == 'create_parent':
        if zk.z_create(PATH) and parent_deleted_with_members:
          flags.add('parent_deleted_with_members_then_recreated')
      elif k == 'raises':
        raise_next[0] = op[1]
      elif k == 'slow':
        slow_next[0] = op[1]
        slow_next[1] = (op[2] if len(op) > 2 else 8) / 1000.0
      elif k == 'advance':
        advance(op[1] / 1000.0)
      elif k == 'check':
        check(step, op)
      else:
        raise HarnessError(op)
    if twin and twin[1] >= len(plan['ops']):
      close_twin()
      # the survivor still has to see a change made after its twin has gone
      i = min([j for j in range(6) if ep_of(j) not in tree_eps().values()] or [0])
      if not zk.z_create('%s/%s' % (PATH, NAMES[i]), data(i)):
        zk.z_delete('%s/%s' % (PATH, NAMES[i]))
    check(len(plan['ops']), ['final'])
    if reader is not None:
      reader.kill()
    sss[0].stop()
    for lb in lbs:
      if lb is not None:
        lb.Close()
    settle()
  nt = sorted(flags) or None
  return Outcome(nontrivial=nt, classes=sorted(flags) + (['with_balancer'] if plan['with_balancer'] else []))
