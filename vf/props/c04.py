"""C04 - per-member load is conserved; removed members drain, then close."""
from hypothesis import strategies as st

from vf.evidence import Outcome
from vf.world import World, settle, advance
from vf.lbharness import LBRun
from vf.props.c03 import lb_ops, lb_config

ID = 'C04'
LEVEL = 'exploration'
RULE = ('Same machine as C03 (Hypothesis-generated histories of dispatch / complete in any order with reply or error / '
        'late duplicate completion / down / up / join / leave / re-join over 1-9 members, heap and aperture balancers). '
        'After every step the load the balancer attributes to each member, (node.load - Idle) mod Penalty, is compared '
        'with the model\'s dispatched-not-completed count per channel generation (and the aperture total with the total), '
        '"Decrementing load below Zero" must never be logged, no request may reach a removed member, and Close() on a '
        'removed member\'s channel must happen exactly once, at the leave step if it was idle or marked down, otherwise '
        'at the step completing its last outstanding request. Non-trivial = a loaded or marked-down member left, or a '
        'late duplicate completion happened, with >= 1 completion on a removed member. distinct = distinct non-trivial plans.')
ASSUMPTIONS = [
    '"marked down" is read from the member\'s heap node (load carries the penalty) just before the leave is delivered',
    'member channels are harness objects; loads are read from heap nodes (observe_at allows it)',
]
BUDGET = {
    'quick': {'examples': 1200},
    'thorough': {'examples': 3000, 'shards': 16},
}


def strategy(tier):
  return st.fixed_dictionaries({'config': lb_config(), 'ops': lb_ops(100 if tier == 'quick' else 250)})


def execute(plan):
  with World(seed=plan['config']['seed']) as w:
    run = LBRun(plan, ID)
    run.build(w)
    settle()
    advance(0.02)
    run.run_ops()
    # drain everything: every removed channel must end up closed exactly once
    for r in list(run.outstanding_reqs()):
      run.step += 1
      run.cur_op = ['drain', r.id]
      from scales.message import MethodReturnMessage
      try:
        r.stack.AsyncProcessResponseMessage(MethodReturnMessage('ok'))
      except Exception as e:
        run.raised('completing request %d on %r' % (r.id, r.channel), e)
      settle()
      run.after_step()
    flags = run.flags
  nt = None
  if (('leave_loaded' in flags or 'leave_down' in flags) and 'completion_on_removed' in flags) or \
     ('late_duplicate' in flags and 'leave_loaded' in flags):
    nt = sorted(flags)
  return Outcome(nontrivial=nt, classes=['balancer=' + plan['config']['balancer']] + sorted(flags))
