"""C15 - Kafka produce requests and responses are well-formed for every input."""
from hypothesis import strategies as st

from vf.evidence import Outcome
from vf.world import World, Violation, HarnessError, settle, advance
from vf.boot import loop
from vf.simnet import SimNet, Server
from vf.peers.kafka import KafkaPeer
from vf.codecs import kafka_ref as K

from scales.constants import MessageProperties, SinkProperties
from scales.core import ScalesUriParser
from scales.kafka.protocol import BrokerMetadata, MetadataResponse, PartitionMetadata, ProduceResponse
from scales.kafka.sink import KafkaEndpoint, KafkaSerializerSink, KafkaTransportSink
from scales.message import Deadline, MethodCallMessage, MethodReturnMessage, TimeoutError
from scales.observable import Observable
from scales.sink import ClientMessageSink, ClientMessageSinkStack

ID = 'C15'
LEVEL = 'exploration'
RULE = ('Hypothesis-generated produce calls (topic bytes 1-200, partition any int32, acks any int16, payload lists incl. '
        'empty list, empty payloads, > 64 kB payloads, payloads around and above 1 MB, arbitrary bytes; positional or keyword arguments), 1-5 concurrent '
        'requests on one connection answered in a drawn order, plus one metadata request, through KafkaSerializerSink -> '
        'KafkaTransportSink on the simulated socket; request bytes are parsed by the harness\'s own strict Kafka v0 parser '
        '(sizes, CRC32, header fields, nothing trailing); produce / metadata responses (several topics, partitions, brokers, '
        'negative error codes, int64 offsets) come from the harness encoder and must decode to exactly the tuples given, '
        'each delivered to the request with the same correlation id, also when all replies are readable in one burst; optionally one message is sent again through another broker\'s serializer and connection for another partition (a router retry). Non-trivial = >= 2 payloads with one empty or > 64 kB, '
        'or >= 2 concurrent requests answered out of order. distinct = distinct non-trivial plans.')
ASSUMPTIONS = [
    'reply bytes arrive in drawn fragments (whole, single bytes, drawn sizes); requests are written with one sendall',
    'topics and payloads are bytes (as in the repository\'s test)',
    'the message carries the KafkaEndpoint the heap balancer would stamp on it',
]
BUDGET = {
    'quick': {'examples': 1000},
    'thorough': {'examples': 2500, 'shards': 16},
}

PORT = 9300
I16 = st.integers(-2 ** 15, 2 ** 15 - 1)
# error codes: every code the protocol names (each may be special-cased somewhere), or any int16
ERR = st.one_of(st.sampled_from([0, 0, 0, -1, 1, 2, 3, 4, 5, 6, 7, 8, 9, 10, 11, 12, 14, 15, 16]), I16)
I32 = st.integers(-2 ** 31, 2 ** 31 - 1)
I64 = st.integers(-2 ** 63, 2 ** 63 - 1)
# names in responses (topics, broker hosts): any bytes, the empty string included
NAME = st.one_of(st.binary(min_size=0, max_size=40), st.binary(min_size=0, max_size=40), st.just(b'')).map(lambda b: b.hex())


def strategy(tier):
  # big payloads are described compactly (Hypothesis caps the entropy of one example at 8 kB)
  from vf.gen import weighted
  payload = weighted(
      (5, st.binary(max_size=30).map(lambda b: b.hex())), (5, st.just('')),
      (5, st.tuples(st.binary(min_size=1, max_size=8), st.integers(65530, 70000)).map(lambda t: 'rep:%s:%d' % (t[0].hex(), t[1]))),
      (5, st.tuples(st.binary(min_size=1, max_size=8), st.integers(100, 3000)).map(lambda t: 'rep:%s:%d' % (t[0].hex(), t[1]))),
      # around one megabyte (a broker's usual message.max.bytes) and beyond
      (1, st.tuples(st.binary(min_size=1, max_size=8), st.sampled_from([999986, 999987, 1000000, 1000001, 1048577, 2100000])).map(
          lambda t: 'rep:%s:%d' % (t[0].hex(), t[1]))))
  req = st.fixed_dictionaries({
      'payloads': st.one_of(st.lists(payload, max_size=4), st.just([])),
      'acks': st.one_of(I16, st.sampled_from([0, 1, -1])),
      'kw': st.sampled_from(['pos', 'kw', 'default_acks']),
      'response': st.lists(st.tuples(NAME, st.lists(st.tuples(I32, ERR, I64).map(list), max_size=3)).map(list), max_size=3),
  })
  part = st.tuples(ERR, I32, I32, st.lists(I32, max_size=4), st.lists(I32, max_size=4)).map(list)
  meta = st.fixed_dictionaries({
      'brokers': st.lists(st.tuples(I32, NAME, I32).map(list), max_size=4, unique_by=lambda b: b[0]),
      'topics': st.lists(st.tuples(ERR, NAME, st.lists(part, max_size=3, unique_by=lambda p: p[1])).map(list), max_size=3,
                         unique_by=lambda t: t[1]),
  })
  return st.fixed_dictionaries({
      'topic': st.one_of(st.binary(min_size=1, max_size=20), st.binary(min_size=1, max_size=200)).map(lambda b: b.hex()),
      'partition': I32,
      'requests': st.lists(req, min_size=1, max_size=5),
      'order': st.permutations([0, 1, 2, 3, 4]),
      'metadata': st.one_of(st.none(), meta),
      # how the reply byte stream is split across socket reads
      # the transport's client id: the stock one, or what a subclass / deployment sets (other lengths, empty, non-ASCII bytes)
      # requests (by index) whose deadline passes after they were sent, and how many of the last requests are only issued then
      'timeouts': st.one_of(st.just([]), st.just([]), st.lists(st.integers(0, 3), min_size=1, max_size=2, unique=True)),
      'after_timeouts': st.integers(1, 2),
      # the socket takes one request only in two pieces (the peer's window fills after `cut` bytes for a few ms)
      'stall': st.one_of(st.none(), st.none(), st.fixed_dictionaries({'send_index': st.integers(0, 3), 'cut': st.sampled_from([1, 9, 30, 64]),
                                                                        'for_ms': st.sampled_from([1, 4, 8])})),
      # all replies arrive in one burst (readable together), instead of one at a time
      'replies_together': st.sampled_from([False, False, True]),
      # one of the messages is sent again afterwards, as the router does when it retries: through the serializer and
      # connection of another broker, stamped with that member's endpoint (another partition)
      'resend': st.one_of(st.none(), st.none(), st.fixed_dictionaries({'index': st.integers(0, 4), 'partition': I32})),
      'client_id': st.sampled_from([None, None, '', '78', '7363616c657321', 'c3a9e282ac', '61' * 40]),
      'chunks': st.one_of(st.none(), st.just('bytes'), st.lists(st.integers(1, 9), min_size=1, max_size=5),
                          st.lists(st.sampled_from([1, 3, 4, 5, 64, 1000]), min_size=1, max_size=4)),
      # most bytes one send() call of the socket accepts (sendall always takes everything), as a full socket buffer does
      'send_max': st.sampled_from([None, None, 1, 64, 4096, 65536]),
  })


def _payload(p):
  if p.startswith('rep:'):
    _, unit, n = p.split(':')
    unit = bytes.fromhex(unit)
    return (unit * (int(n) // len(unit) + 1))[:int(n)]
  return bytes.fromhex(p)


class Terminal(ClientMessageSink):
  def AsyncProcessRequest(self, *a):
    raise HarnessError('terminal')

  def AsyncProcessResponse(self, sink_stack, context, stream, msg):
    context.append(msg)


def execute(plan):
  nt = set()
  with World(seed=0):
    net = SimNet()
    net.install()
    net.send_max = plan.get('send_max')
    ch = plan.get('chunks')
    if ch:
      nt_reads = {'i': 0}

      def chunker(sock, avail, want):
        nt_reads['i'] += 1
        return 1 if ch == 'bytes' else ch[nt_reads['i'] % len(ch)]
      net.chunker = chunker
    stl = plan.get('stall')
    if stl:
      def stall_fn(sock, data, idx):
        if idx == stl['send_index'] and len(data) > stl['cut'] + 1:
          return (stl['cut'], stl['for_ms'] / 1000.0)
        return None
      net.stall = stall_fn
    want_client_id = b'scales'
    if plan.get('client_id') is not None:
      want_client_id = bytes.fromhex(plan['client_id'])
      stock = KafkaTransportSink.CLIENT_ID
      KafkaTransportSink.CLIENT_ID = want_client_id
      World.current.cleanups.append(lambda: setattr(KafkaTransportSink, 'CLIENT_ID', stock))
    peer = KafkaPeer()
    Server(net, ('127.0.0.1', PORT), peer)
    ser = KafkaSerializerSink.Builder()
    ser.next_provider = KafkaTransportSink.Builder()
    ep = ScalesUriParser.Endpoint('127.0.0.1', PORT)
    sink = ser.CreateSink({SinkProperties.Label: 'svc', SinkProperties.Endpoint: ep})
    op = sink.Open()
    advance(0.01)
    if not op.ready() or op.exception:
      raise Violation(ID, 'open-failed', 'transport did not open: %r' % (op.exception if op.ready() else 'pending'))
    topic = bytes.fromhex(plan['topic'])
    kep = KafkaEndpoint('127.0.0.1', PORT, plan['partition'])
    results = []
    reqs = plan['requests']
    timed_out = sorted(set(t for t in (plan.get('timeouts') or []) if t < len(reqs)))
    n_late = min(plan.get('after_timeouts', 0), max(0, len(reqs) - 1)) if timed_out else 0
    timed_out = [t for t in timed_out if t < len(reqs) - n_late]
    events = {}
    stacks = {}
    fired = set()
    sent_msgs = []
    for i, rq in enumerate(reqs):
      if n_late and i == len(reqs) - n_late:
        # the deadlines of some requests that are already on the wire pass (what ClientTimeoutSink does), and only
        # then are the remaining requests issued: a correlation id in flight must not be handed out again
        advance(0.01)
        for t in timed_out:
          if not results[t]:
            fired.add(t)
            events[t].Set(True)
            stacks[t].AsyncProcessResponseMessage(MethodReturnMessage(error=TimeoutError()))
        advance(0.005)
        nt.add('requests issued after in-flight ones timed out')
      payloads = [_payload(p) for p in rq['payloads']]
      if rq['kw'] == 'pos':
        msg = MethodCallMessage(None, 'Put', (topic, payloads, rq['acks']), {})
      elif rq['kw'] == 'kw':
        msg = MethodCallMessage(None, 'Put', (topic,), {'payloads': payloads, 'acks': rq['acks']})
      else:
        msg = MethodCallMessage(None, 'Put', (topic, payloads), {})
      msg.properties[MessageProperties.Endpoint] = kep
      sent_msgs.append(msg)
      got = []
      results.append(got)
      st_ = ClientMessageSinkStack()
      st_.Push(Terminal(), got)
      if i in timed_out:
        msg.properties[Deadline.KEY] = loop.now() + 5.0
        events[i] = msg.properties[Deadline.EVENT_KEY] = Observable()
        stacks[i] = st_
      if stl:
        # every caller has its own greenlet: one may be part-way through a blocked write when the next one comes
        import gevent
        gevent.spawn(sink.AsyncProcessRequest, st_, msg, None, {})
      else:
        try:
          sink.AsyncProcessRequest(st_, msg, None, {})
        except Exception as e:
          raise Violation(ID, 'request-not-framed', 'produce request %d could not be framed: %r' % (i, e))
      if len(payloads) >= 2 and any(len(p) == 0 or len(p) > 65535 for p in payloads):
        nt.add('>=2 payloads with one empty or >64kB')
    advance(0.01 + (stl['for_ms'] / 1000.0 if stl else 0))
    if peer.bad or peer.leftover():
      raise Violation(ID, 'bad-framing', 'size prefix does not match the bytes sent: %r %r' % (peer.bad, dict((k, len(v)) for k, v in peer.leftover().items())))
    if len(peer.requests) != len(reqs):
      early = [(i, g[0].error) for i, g in enumerate(results) if g]
      raise Violation(ID, 'request-count', '%d requests reached the broker for %d calls (early completions: %r)' % (len(peer.requests), len(reqs), early))
    corr = []
    for i, (rq, rec) in enumerate(zip(reqs, peer.requests)):
      if 'error' in rec:
        raise Violation(ID, 'request-malformed', 'request %d: %s' % (i, rec['error']))
      d = rec['req']
      want_acks = 1 if rq['kw'] == 'default_acks' else rq['acks']
      payloads = [_payload(p) for p in rq['payloads']]
      if d['api_key'] != 0 or d['api_version'] != 0:
        raise Violation(ID, 'header-fields', 'request %d: api key %d version %d' % (i, d['api_key'], d['api_version']))
      if d['client_id'] != want_client_id:
        raise Violation(ID, 'header-fields', 'request %d: client id %r' % (i, d['client_id']))
      if d['correlation_id'] in corr:
        raise Violation(ID, 'correlation-reused', 'request %d reuses correlation id %d of an unanswered request' % (i, d['correlation_id']))
      corr.append(d['correlation_id'])
      if d['acks'] != want_acks:
        raise Violation(ID, 'acks', 'request %d: acks %d, caller passed %d' % (i, d['acks'], want_acks))
      if d['timeout'] <= 0:
        raise Violation(ID, 'timeout-field', 'request %d: timeout %d' % (i, d['timeout']))
      if len(d['topics']) != 1 or d['topics'][0]['topic'] != topic:
        raise Violation(ID, 'topic', 'request %d: topics %r' % (i, [t['topic'] for t in d['topics']]))
      parts = d['topics'][0]['partitions']
      if len(parts) != 1 or parts[0]['partition'] != plan['partition']:
        raise Violation(ID, 'partition', 'request %d: partitions %r, endpoint partition %d' % (i, [p['partition'] for p in parts], plan['partition']))
      msgs = parts[0]['messages']
      if [m['value'] for m in msgs] != payloads:
        raise Violation(ID, 'payloads', 'request %d: %d messages with value sizes %r, caller passed sizes %r' % (
            i, len(msgs), [None if m['value'] is None else len(m['value']) for m in msgs], [len(p) for p in payloads]))
      for j, m in enumerate(msgs):
        if not m['crc_ok']:
          raise Violation(ID, 'crc', 'request %d message %d: CRC32 does not verify' % (i, j))
        if m['magic'] != 0 or m['attrs'] != 0 or m['key'] is not None:
          raise Violation(ID, 'message-fields', 'request %d message %d: magic %d attrs %d key %r' % (i, j, m['magic'], m['attrs'], m['key']))
    # responses, in a drawn order
    order = [i for i in plan['order'] if i < len(reqs)]
    if order != sorted(order) and len(order) >= 2:
      nt.add('>=2 concurrent requests answered out of order')
    together = bool(plan.get('replies_together')) and len(order) >= 2
    if together:
      nt.add('>=2 replies readable together')
      burst = b''
      for i in order:
        rq, rec = reqs[i], peer.requests[i]
        resp = [(bytes.fromhex(name), [tuple(p) for p in parts]) for name, parts in rq['response']]
        resp.append((b'marker', [(i, 0, 1000 + i)]))
        burst += K.encode_produce_response(rec['req']['correlation_id'], resp)
      peer.requests[order[0]]['sock'].deliver(burst)
      advance(0.004)
    for i in order:
      rq, rec = reqs[i], peer.requests[i]
      resp = [(bytes.fromhex(name), [tuple(p) for p in parts]) for name, parts in rq['response']]
      # unique marker so that responses can be told apart
      resp.append((b'marker', [(i, 0, 1000 + i)]))
      if not together:
        rec['sock'].deliver(K.encode_produce_response(rec['req']['correlation_id'], resp))
        advance(0.002)
      want = []
      for name, parts in resp:
        for pid, err, off in parts:
          want.append(ProduceResponse(name, pid, err, off))
      for j, g in enumerate(results):
        done_before = j in order[:order.index(i)]
        if j == i and i in fired:
          # the late reply to a request that has timed out changes nothing for its caller
          if len(g) != 1 or not isinstance(g[0].error, TimeoutError):
            raise Violation(ID, 'response-misrouted', 'request %d had timed out; after its late reply its caller holds %r' % (i, [(m.error, m.return_value) for m in g]))
        elif j == i:
          if len(g) != 1:
            raise Violation(ID, 'response-not-delivered', 'response for request %d (correlation id %d) was delivered %d times' % (i, rec['req']['correlation_id'], len(g)))
          if g[0].error is not None:
            raise Violation(ID, 'response-undecodable', 'response for request %d failed to decode: %r' % (i, g[0].error))
          if list(g[0].return_value) != want:
            raise Violation(ID, 'response-mismatch', 'request %d decoded %r, broker encoded %r' % (i, g[0].return_value, want))
        elif not together and not done_before and g and not (j in fired and len(g) == 1 and isinstance(g[0].error, TimeoutError)):
          raise Violation(ID, 'response-misrouted', 'request %d completed when the response for request %d was sent' % (j, i))
    rs = plan.get('resend')
    cands = [i for i in range(len(reqs)) if i not in timed_out]
    if rs is not None and cands:
      i = cands[rs['index'] % len(cands)]
      rq, msg = reqs[i], sent_msgs[i]
      peer2 = KafkaPeer()
      Server(net, ('127.0.0.1', PORT + 1), peer2)
      ser2 = KafkaSerializerSink.Builder()
      ser2.next_provider = KafkaTransportSink.Builder()
      sink2 = ser2.CreateSink({SinkProperties.Label: 'svc', SinkProperties.Endpoint: ScalesUriParser.Endpoint('127.0.0.1', PORT + 1)})
      op2 = sink2.Open()
      advance(0.01)
      if not op2.ready() or op2.exception:
        raise Violation(ID, 'open-failed', 'second transport did not open: %r' % (op2.exception if op2.ready() else 'pending'))
      msg.properties[MessageProperties.Endpoint] = KafkaEndpoint('127.0.0.1', PORT + 1, rs['partition'])
      got = []
      st_ = ClientMessageSinkStack()
      st_.Push(Terminal(), got)
      try:
        sink2.AsyncProcessRequest(st_, msg, None, {})
      except Exception as e:
        raise Violation(ID, 'request-not-framed', 'produce request %d could not be framed when sent again: %r' % (i, e))
      advance(0.01)
      if len(peer2.requests) != 1 or 'error' in peer2.requests[0] or peer2.bad or peer2.leftover():
        raise Violation(ID, 'request-malformed', 'request %d sent again to another broker: %r %r' % (i, peer2.requests, peer2.bad))
      d = peer2.requests[0]['req']
      parts = d['topics'][0]['partitions'] if len(d['topics']) == 1 else []
      if len(d['topics']) != 1 or d['topics'][0]['topic'] != topic or len(parts) != 1 or parts[0]['partition'] != rs['partition']:
        raise Violation(ID, 'partition', 'request %d sent again for partition %d of %r names %r' % (
            i, rs['partition'], topic, [(t['topic'], [p['partition'] for p in t['partitions']]) for t in d['topics']]))
      if [m['value'] for m in parts[0]['messages']] != [_payload(p) for p in rq['payloads']]:
        raise Violation(ID, 'payloads', 'request %d sent again: message sizes %r' % (i, [len(m['value'] or b'') for m in parts[0]['messages']]))
      peer2.requests[0]['sock'].deliver(K.encode_produce_response(d['correlation_id'], [(b'again', [(rs['partition'], 0, 7)])]))
      advance(0.003)
      if len(got) != 1 or got[0].error is not None or list(got[0].return_value) != [ProduceResponse(b'again', rs['partition'], 0, 7)]:
        raise Violation(ID, 'response-not-delivered', 'request %d sent again: caller holds %r' % (i, [(m.error, m.return_value) for m in got]))
      if rs['partition'] != plan['partition']:
        nt.add('message sent again for another partition')
      sink2.Close()
    # metadata
    meta = plan['metadata']
    if meta is not None:
      msg = MethodCallMessage(None, '__metadata', [], {})
      msg.properties[MessageProperties.Endpoint] = kep
      got = []
      st_ = ClientMessageSinkStack()
      st_.Push(Terminal(), got)
      n0 = len(peer.requests)
      try:
        sink.AsyncProcessRequest(st_, msg, None, {})
      except Exception as e:
        raise Violation(ID, 'request-not-framed', 'metadata request could not be framed: %r' % (e,))
      advance(0.01)
      if len(peer.requests) != n0 + 1 or 'error' in peer.requests[-1]:
        raise Violation(ID, 'request-malformed', 'metadata request: %r' % (peer.requests[n0:],))
      rec = peer.requests[-1]
      if rec['req']['api_key'] != 3 or rec['req']['api_version'] != 0 or rec['req']['client_id'] != want_client_id or rec['req']['topics'] != []:
        raise Violation(ID, 'header-fields', 'metadata request %r' % (rec['req'],))
      brokers = [(n, bytes.fromhex(h), p) for n, h, p in meta['brokers']]
      topics = [(e, bytes.fromhex(nm), [tuple(p) for p in parts]) for e, nm, parts in meta['topics']]
      rec['sock'].deliver(K.encode_metadata_response(rec['req']['correlation_id'], brokers, topics))
      advance(0.002)
      if len(got) != 1 or got[0].error is not None:
        raise Violation(ID, 'response-undecodable', 'metadata response: %r' % ([g.error for g in got],))
      mr = got[0].return_value
      want_b = dict((n, BrokerMetadata(n, h, p)) for n, h, p in brokers)
      want_t = {}
      for e, nm, parts in topics:
        want_t[nm] = dict((pid, PartitionMetadata(nm, pid, leader, tuple(rep), tuple(isr))) for perr, pid, leader, rep, isr in parts)
      if not isinstance(mr, MetadataResponse) or dict(mr.brokers) != want_b or dict(mr.topics) != want_t:
        raise Violation(ID, 'response-mismatch', 'metadata decoded %r, broker encoded %r %r' % (mr, want_b, want_t))
    sink.Close()
    settle()
  return Outcome(nontrivial=sorted(nt) or None, classes=sorted(nt) + ['requests=%d' % len(plan['requests'])] +
                 (['metadata'] if plan['metadata'] is not None else []) +
                 (['replies_split_across_reads'] if plan.get('chunks') else []))
