"""C12 - timed-out calls are never transmitted afterwards; sent ones are discarded."""
from hypothesis import strategies as st

from vf.evidence import Outcome
from vf.world import World, Violation
from vf.stack import run_world
from vf.codecs import mux_ref as M
from vf.props.c01 import palette

ID = 'C12'
LEVEL = 'exploration'
RULE = ('Hypothesis-generated world plans that place each call\'s deadline at a chosen hop of the request path, just before or '
        'just after the hop completes: dispatcher / balancer waiting for the client to open (first connect takes about T), '
        'waiting in the pool queue (Thrift, max_watermark 1, earlier call slow), inside the connect of a fresh pooled '
        'connection (connect takes about T), waiting in the ThriftMux send queue (a gate holds a ping or a no-deadline call\'s '
        'frame inside sendall while later frames queue up), on the wire awaiting a reply (never / late); with the connection '
        'still open or killed around the deadline. Every byte written is logged with a global sequence number; a request is '
        'attributed to its call by the unique marker in its argument. Oracle: for every call handed TimeoutError at sequence '
        's no write containing its request has sequence > s; ThriftMux: if the request had been written and its connection is '
        'still open at that moment (or, for a frame caught part-way through a blocked write, when the frame is complete), a Tdiscarded naming exactly its tag reaches the peer before the run ends, and no '
        'Tdiscarded names a tag that was not written. Non-trivial = some call\'s deadline passed while its request was at a hop '
        'other than "on the wire". distinct = distinct non-trivial plans.')
ASSUMPTIONS = [
    'the gate only ever holds a ping or a call without a deadline inside the run, before any byte is taken',
    'a ThriftMux frame that is part-way through a blocked write when its deadline passes is completed (the bytes already out cannot be recalled): only starting to write a request after the TimeoutError counts as writing it afterwards, and the discard notice is due if the connection is still open once the frame is complete',
    'a request is attributed to its call by a unique ASCII marker in its argument',
]
BUDGET = {
    'quick': {'examples': 2000, 'seconds': 75},
    'thorough': {'examples': 4000, 'shards': 16},
}


@st.composite
def plans(draw):
  T = draw(st.sampled_from([20, 50, 100]))
  stack = draw(st.sampled_from(['thrift', 'thriftmux']))
  hop = draw(st.sampled_from(['open', 'open', 'pool_queue', 'connect', 'send_queue', 'wire', 'mixed']))
  if hop in ('pool_queue', 'connect') and stack != 'thrift':
    stack = 'thrift'
  if hop == 'send_queue' and stack != 'thriftmux':
    stack = 'thriftmux'
  around = st.sampled_from([T - 11, T - 10, T - 9, T - 2, T - 1, T, T + 1, T + 2, T + 9, T + 10, T + 11, T + 30])
  d = st.sampled_from(palette(T))
  port = 9001
  nports = 1 if hop != 'mixed' else draw(st.integers(1, 2))
  ports = [9001 + i for i in range(nports)]
  servers = {}
  calls = []
  wait_open = True
  pool = None
  gate = None
  kinds_late = ['never', 'reply', 'reply']
  if hop == 'open':
    wait_open = False
    servers[str(port)] = {'connect': [['accept', draw(around)]], 'requests': [['reply', draw(st.sampled_from([0, 1, 5]))]] * 3, 'timeline': []}
    for i in range(draw(st.integers(1, 3))):
      # a per-call timeout may be shorter or longer than the client's
      calls.append({'at': draw(st.integers(0, 3)), 'method': 'hi', 'arg': '<c%d>' % i,
                    'timeout_ms': draw(st.sampled_from([None, None, None, T // 2, 2 * T, 3 * T + 20])), 'via_dispatcher': draw(st.booleans())})
  elif hop == 'pool_queue':
    pool = {'max': 1, 'min': draw(st.integers(0, 1)), 'queue': None}
    first = draw(around)
    servers[str(port)] = {'connect': [], 'requests': [['reply', first]] + [['reply', 1]] * 4, 'timeline': []}
    calls.append({'at': 0, 'method': 'hi', 'arg': '<c0>', 'timeout_ms': 3 * T + 100, 'via_dispatcher': True})
    for i in range(1, draw(st.integers(2, 4))):
      calls.append({'at': draw(st.integers(0, 3)), 'method': 'hi', 'arg': '<c%d>' % i, 'timeout_ms': None, 'via_dispatcher': False})
  elif hop == 'connect':
    pool = {'max': 3, 'min': 0, 'queue': None}
    servers[str(port)] = {'connect': [['accept', 1], ['accept', draw(around)], ['accept', draw(around)]],
                          'requests': [['reply', 3 * T]] + [['reply', 1]] * 4, 'timeline': []}
    calls.append({'at': 0, 'method': 'hi', 'arg': '<c0>', 'timeout_ms': 5 * T, 'via_dispatcher': True})
    for i in range(1, draw(st.integers(2, 3))):
      calls.append({'at': draw(st.integers(1, 4)), 'method': 'hi', 'arg': '<c%d>' % i, 'timeout_ms': None, 'via_dispatcher': False})
  elif hop == 'send_queue':
    servers[str(port)] = {'connect': [], 'requests': [['reply', 1]] * 6, 'timeline': []}
    calls.append({'at': 5, 'method': 'hi', 'arg': '<c0>nodeadline', 'timeout_ms': 100000, 'via_dispatcher': True})
    for i in range(1, draw(st.integers(2, 4))):
      calls.append({'at': draw(st.integers(6, 12)), 'method': 'hi', 'arg': '<c%d>' % i,
                    'timeout_ms': draw(st.sampled_from([None, 20, 50])), 'via_dispatcher': draw(st.booleans())})
    gate = {'from_ms': 4, 'until_ms': 5 + draw(around)}
  else:
    for p in ports:
      reqs = draw(st.lists(st.tuples(st.sampled_from(kinds_late + (['close', 'reset'] if hop == 'mixed' else [])), st.one_of(around, d)).map(list), min_size=1, max_size=5))
      tl = draw(st.lists(st.tuples(around, st.sampled_from(['kill', 'close'])).map(list), max_size=1))
      servers[str(p)] = {'connect': [], 'requests': reqs, 'timeline': tl}
    if stack == 'thrift':
      pool = draw(st.one_of(st.none(), st.just({'max': 2, 'min': 1, 'queue': None})))
    for i in range(draw(st.integers(1, 4))):
      calls.append({'at': draw(st.integers(0, 20)), 'method': 'hi', 'arg': '<c%d>' % i,
                    'timeout_ms': draw(st.sampled_from([None, None, 20, 50])), 'via_dispatcher': draw(st.booleans())})
  for p in ports:
    servers.setdefault(str(p), {'connect': [], 'requests': [], 'timeline': []})
  if stack == 'thriftmux' and hop in ('wire', 'mixed') and draw(st.sampled_from([False, False, True])):
    # ThriftMux: a frame that is part-way out when its deadline passes is completed (it cannot be recalled) and then discarded
    servers[str(ports[0])]['stall'] = {'conn': 0, 'send_index': draw(st.integers(1, 3)),
                                       'cut': draw(st.sampled_from([1, 4, 10, 18])),
                                       'for_ms': draw(st.sampled_from([5, T - 5, T + 10, 2 * T]))}
  if stack == 'thrift' and hop in ('wire', 'mixed') and draw(st.sampled_from([False, False, True])):
    # the peer's window fills after a few bytes of a request and the write blocks for a while (serial stack only:
    # its deadline timer interrupts the blocked write; a mux frame half-written at the deadline cannot be recalled)
    servers[str(ports[0])]['stall'] = {'conn': draw(st.integers(0, 1)), 'send_index': draw(st.integers(0, 2)),
                                       'cut': draw(st.sampled_from([1, 4, 10, 18])),
                                       'for_ms': draw(st.sampled_from([5, T - 5, T + 10, 2 * T]))}
  ret = {
      'seed': draw(st.integers(0, 2 ** 16)), 'stack': stack, 'iface': 'hello', 'hop': hop,
      'client_id': None, 'balancer': draw(st.sampled_from(['default', 'heap'])), 'pool': pool,
      'timeout_ms': T, 'wait_open': wait_open,
      'serverset': {'kind': 'uri', 'initial': ports, 'events': []},
      'servers': servers, 'calls': calls, 'gate': gate,
      'run_ms': 6 * T + 300, 'close_at': None,
      # the state of a long-lived mux connection: tag counter at a high-water mark, a few low tags recycled
      'tag_state': draw(st.sampled_from([None, None, [254, []], [255, [2]], [4095, []], [65534, []], [65537, [2, 3]], [2 ** 23 + 1, []]])) if stack == 'thriftmux' else None,
  }
  if hop == 'mixed' and nports == 2 and draw(st.sampled_from([False, True])):
    # the balancer is open as soon as its first member is; the second member is still connecting (for about T) and
    # becomes eligible only mid-run (the balancer does not select it before)
    servers[str(ports[1])]['connect'] = [['accept', draw(around)]]
    ret['wait_open'] = False
    ret['balancer'] = 'heap'
  return ret


def strategy(tier):
  return plans()


def execute(plan):
  with World(seed=plan['seed']):
    tr = run_world(plan)
    net = tr.net
    mux = plan['stack'] == 'thriftmux'
    flags = set()
    # writes per call
    writes = {}        # call id -> [(seq of first byte, time, cid, tag, seq of last byte)]
    discards = []      # (seq, time, cid, which)
    blocked = []       # (cid, seq of first byte, seq of last byte) of frames that went out in two pieces
    if mux:
      # reassemble each connection's byte stream into frames: a frame may have gone out in two pieces (blocked write)
      streams = {}
      cut_off = {}     # cid -> seq of the first byte of a frame that never went out completely (the connection died first)
      for seq, t, kind, cid, payload in net.log:
        if kind == 'tx':
          streams.setdefault(cid, []).append((seq, t, payload))
      for cid, parts in streams.items():
        buf = b''
        first = None
        for seq, t, payload in parts:
          if not buf:
            first = (seq, t)
          buf += payload
          while len(buf) >= 4 and len(buf) >= 4 + int.from_bytes(buf[:4], 'big'):
            n = int.from_bytes(buf[:4], 'big')
            body, buf = buf[4:4 + n], buf[4 + n:]
            try:
              d = M.decode_frame(body)
            except Exception:
              d = None
            if d is not None and d['type'] == M.T_DISCARDED:
              discards.append((seq, t, cid, d['which']))
            for rec in tr.calls:
              if ('<c%d>' % rec.id).encode() in body:
                try:
                  tag = M.decode_header(body)[1]
                except Exception:
                  tag = None
                writes.setdefault(rec.id, []).append((first[0], first[1], cid, tag, seq))
            first = (seq, t)
        if buf:
          cut_off[cid] = first[0]
      # blocked writes: from the moment the peer's window filled to the next bytes taken on that connection (if ever)
      for seq, t, kind, cid, payload in net.log:
        if kind == 'stall':
          nxt = [s2 for s2, _, k2, c2, _ in net.log if s2 > seq and c2 == cid and k2 == 'tx']
          blocked.append((cid, seq, nxt[0] if nxt else 1 << 60))
    else:
      for seq, t, kind, cid, payload in net.log:
        if kind != 'tx':
          continue
        for rec in tr.calls:
          marker = ('<c%d>' % rec.id).encode()
          if marker in payload:
            writes.setdefault(rec.id, []).append((seq, t, cid, None, seq))
    written_tags = set((cid, tag) for ws in writes.values() for (_, _, cid, tag, _) in ws)

    def conn_open_at(cid, seq):
      for s2, t2, kind, c2, _ in net.log:
        if s2 > seq:
          break
        if c2 == cid and kind in ('close', 'peer_eof', 'peer_reset', 'fault'):
          return False
      return True

    for rec in tr.calls:
      if rec.issued_at is None or rec.first is None:
        continue
      ct, kind, payload, s = rec.first
      if kind != 'timeout':
        continue
      where = 'call %d (T=%g ms, TimeoutError at %+.2f ms, hop scenario %r)' % (rec.id, rec.timeout * 1000, (ct - tr.base) * 1000, plan.get('hop'))
      ws = writes.get(rec.id, [])
      late = [w for w in ws if w[0] > s]
      if late:
        raise Violation(ID, 'written-after-timeout', '%s: its request was written to connection %d %.3f ms after the caller was handed TimeoutError' % (
            where, late[0][2], (late[0][1] - ct) * 1000))
      if not ws:
        flags.add('deadline_passed_before_the_wire')
      if mux and ws:
        seq_w, t_w, cid, tag, seq_end = ws[0]
        if seq_end > s:
          # the deadline passed while the frame was part-way through a blocked write: what is out cannot be recalled,
          # the rest completes the frame; if the connection is still open then, the server is told to discard the call
          flags.add('deadline_inside_blocked_write')
        # the notice queues behind whatever write is blocked on that connection at the time
        due = max([s, seq_end] + [b1 for c_, b0, b1 in blocked if c_ == cid and b0 <= s <= b1])
        if conn_open_at(cid, due):
          named = [dsc for dsc in discards if dsc[2] == cid and dsc[3] == tag]
          if not named and cid in cut_off and not conn_open_at(cid, 1 << 60):
            # the connection died with a frame part-way out: the notice was that frame or queued behind it
            flags.add('connection_died_with_a_frame_part_way_out')
          elif not named:
            raise Violation(ID, 'discard-missing', '%s: request was written with tag %r on connection %d, which was still open, but no Tdiscarded names it' % (where, tag, cid))
          flags.add('discard_sent')
    for seq, t, cid, which in discards:
      if (cid, which) not in written_tags:
        raise Violation(ID, 'discard-unwritten-tag', 'Tdiscarded on connection %d names tag %d which was never written there' % (cid, which))
    if len(writes) != len(set(writes)):
      pass
    for cid_, ws in writes.items():
      if len(ws) > 1:
        raise Violation(ID, 'written-twice', 'call %d was written %d times' % (cid_, len(ws)))
  return Outcome(nontrivial=sorted(flags) if 'deadline_passed_before_the_wire' in flags else None,
                 classes=['stack=' + plan['stack'], 'hop=' + str(plan.get('hop'))] + sorted(flags))
