"""C09 - failed endpoints fail fast and are used again once reachable."""
from hypothesis import strategies as st

from vf.evidence import Outcome
from vf.world import World, Violation
from vf.stack import run_world, echo

from scales.dispatch import ScalesError
from scales.message import FailedFastError

ID = 'C09'
LEVEL = 'exploration'
RULE = ('Hypothesis-generated long world plans (60-400 virtual seconds) for the Thrift and ThriftMux stacks built by the public '
        'builders (default aperture balancer, or the heap balancer) with 1-3 endpoints that share one up/down timeline: down = '
        'connects refused and live connections reset (also: down at first connect; Thrift: the server hangs - established connections stay but go unanswered, new connects are refused; ThriftMux: silent black-hole detected by '
        'ping), up again after 3-250 s, possibly several phases; a caller issues a call every 0.5-2 s (T = 0.3 s) throughout; '
        'DispatcherClose() at a drawn time, sometimes while down, or inside a reconnect attempt, or from the completion handler of the k-th failed call; resurrector config (5, 60, 1.2) or (2, 10, 1.5). Oracle from '
        'the network log and call outcomes: while everything is down no call waits (completes within 5 ms); once the fault has '
        'been observed every call fails with FailedFastError until a connect is accepted; reconnect attempts while down are '
        'spaced by non-decreasing gaps, first >= the initial wait, all <= the maximum (+ overhead), and growing after three '
        'refusals unless capped; after the endpoints are reachable again a call succeeds within one maximum retry interval (+ '
        'overhead + call period) and calls keep succeeding; no connect attempt after close. Non-trivial = a down -> up '
        'transition observed under traffic. distinct = distinct non-trivial plans.')
ASSUMPTIONS = [
    'all endpoints of a plan share one timeline, so "the client is down" is well defined',
    'liveness is checked as bounded-time safety on the virtual clock',
    'connect / handshake overhead allowance 1 s; gap monotonicity tolerance 50 ms',
]
BUDGET = {
    'quick': {'examples': 300, 'seconds': 80},
    'thorough': {'examples': 500, 'shards': 16},
}

T_MS = 300


@st.composite
def plans(draw):
  stack = draw(st.sampled_from(['thrift', 'thriftmux']))
  res = draw(st.sampled_from([[5, 60, 1.2], [2, 10, 1.5], [2, 10, 1.5]]))
  nports = draw(st.sampled_from([1, 1, 2, 3]))
  ports = [9001 + i for i in range(nports)]
  # shared: every endpoint follows the same timeline; staggered: they recover at different times; partial: only some
  # of them go down at all (the last two need the heap balancer, which keeps every endpoint in use)
  mode = draw(st.sampled_from(['shared', 'shared', 'staggered', 'partial', 'partial'])) if nports > 1 else 'shared'
  balancer = draw(st.sampled_from(['default', 'default', 'heap'])) if mode == 'shared' else 'heap'
  period = draw(st.sampled_from([500, 1000, 2000]))
  phases = []
  flaky = None
  t = 0
  down_first = draw(st.sampled_from([False, False, True])) if mode == 'shared' else False
  if down_first:
    up_at = draw(st.sampled_from([3, 7, 20, 45])) * 1000 + draw(st.integers(0, 999))
    phases.append([0, up_at, 'refuse'])
    t = up_at
  for _ in range(draw(st.integers(1, 2)) if mode == 'shared' else 1):
    start = t + draw(st.sampled_from([2, 5, 11, 33])) * 1000 + draw(st.integers(0, 999))
    dur = draw(st.sampled_from([3, 8, 20, 45, 90, 150, 250])) * 1000 + draw(st.integers(0, 999))
    kind = draw(st.sampled_from(['reset', 'reset', 'silent'])) if stack == 'thriftmux' else draw(st.sampled_from(['reset', 'reset', 'hang']))
    if mode == 'staggered' and kind == 'hang':
      kind = 'reset'      # endpoints that go on hanging while others are back make calls time out legitimately
    if mode == 'shared' and kind == 'reset' and draw(st.sampled_from([False, False, True])):
      # the host is gone: live connections are reset and new connects go unanswered until they give up with ETIMEDOUT
      # (after blackhole_s seconds, longer than the maximum retry interval)
      kind = 'blackhole'
    phases.append([start, start + dur, kind])
    t = start + dur
  if stack == 'thriftmux' and phases[-1][2] == 'reset' and nports == 1 and draw(st.booleans()):
    # back, but the first connection that gets through is dropped again right after its handshake (0-3 turns of the
    # client's event loop after the ping reply); after that the endpoint is stable
    flaky = draw(st.integers(0, 3))
  stagger = draw(st.sampled_from([7000, 20000])) if mode == 'staggered' else 0
  stagger_order = draw(st.sampled_from(['asc', 'desc']))
  affected = None
  if mode == 'partial':
    affected = sorted(draw(st.lists(st.sampled_from(ports), min_size=1, max_size=nports - 1, unique=True)))
  blackhole_s = {10: 15, 60: 75}[res[1]]
  end = t + (res[1] + 8) * 1000 + stagger * (nports - 1) + (70 * period if (stagger or affected) else 0)
  if any(k == 'blackhole' for _, _, k in phases):
    end += blackhole_s * 1000
  close_at = draw(st.one_of(st.none(), st.none(), st.integers(1000, end)))
  refuse_delay = draw(st.sampled_from([None, None, 400, 900]))
  close_on_connect = None
  if refuse_delay and close_at is None and draw(st.booleans()):
    close_on_connect = {'nth': draw(st.sampled_from([1, 1, 1, 2, 3, 4, 5, 6])), 'delay_ms': draw(st.sampled_from([50, 200, refuse_delay - 50]))}
  if affected:
    close_at = None
  close_on_error = None
  if close_at is None and not affected and not close_on_connect and draw(st.booleans()):
    close_on_error = {'nth': draw(st.integers(1, 3))}
  if flaky is not None:
    close_at = close_on_connect = close_on_error = None      # the client stays open: recovery after the dropped connection is the point
  return {'close_on_error': close_on_error, 'affected': affected, 'stagger_ms': stagger, 'stagger_order': stagger_order, 'refuse_delay_ms': refuse_delay,
          'close_on_connect': close_on_connect,'seed': draw(st.integers(0, 2 ** 16)), 'stack': stack, 'balancer': balancer, 'resurrector': res,
          'ports': ports, 'period_ms': period, 'phases': phases, 'end_ms': end, 'close_at': close_at,
          'pool_max': draw(st.sampled_from([None, 1, 2])) if stack == 'thrift' else None,
          # two callers issue their calls at the same instants: the second needs a further pooled connection
          'blackhole_s': blackhole_s, 'flaky_hops': flaky,
          'pairs': False}


@st.composite
def close_under_load_plans(draw):
  """The client is closed while several calls are parked on a ThriftMux connection whose server has gone silent: closing
  fails them on the spot, and each of those completions passes through the balancer on its way out."""
  res = draw(st.sampled_from([[5, 60, 1.2], [2, 10, 1.5]]))
  nports = draw(st.sampled_from([2, 3, 3]))
  start = draw(st.sampled_from([2, 4])) * 1000 + draw(st.integers(0, 999))
  burst_at = start + draw(st.sampled_from([50, 400]))
  close_at = burst_at + draw(st.sampled_from([1500, 3000, 3100, 5000]))
  return {'close_on_error': None, 'affected': None, 'stagger_ms': 0, 'stagger_order': 'asc', 'refuse_delay_ms': None, 'close_on_connect': None,
          'seed': draw(st.integers(0, 2 ** 16)), 'stack': 'thriftmux', 'balancer': draw(st.sampled_from(['default', 'default', 'heap'])),
          'resurrector': res, 'ports': [9001 + i for i in range(nports)], 'period_ms': 2000,
          'phases': [[start, start + 60000, 'silent']], 'end_ms': close_at + 25000, 'close_at': close_at, 'pool_max': None,
          'blackhole_s': 15, 'pairs': False,
          'burst': {'at_ms': burst_at, 'n': draw(st.integers(3, 8)), 'timeout_ms': 30000}}


def strategy(tier):
  from vf.gen import weighted
  return weighted((5, plans()), (1, close_under_load_plans()))


def to_world(plan):
  servers = {}
  order = list(plan['ports'])
  if plan.get('stagger_order') == 'desc':
    order.reverse()
  for p in plan['ports']:
    tl = []
    sp = {'connect': [], 'requests': [], 'timeline': tl, 'refuse_delay_ms': plan.get('refuse_delay_ms')}
    lag = plan.get('stagger_ms', 0) * order.index(p)
    for start, stop, kind in (plan['phases'] if not plan.get('affected') or p in plan['affected'] else []):
      stop = stop + lag
      if start == 0 and kind == 'refuse':
        sp['initially_down'] = True
        tl.append([stop, 'up'])
      elif kind == 'reset':
        tl.append([start, 'down'])
        tl.append([stop, 'up'])
        if plan.get('flaky_hops') is not None and [start, stop - lag, kind] == plan['phases'][-1]:
          tl.append([stop, ['flaky', plan['flaky_hops']]])
      elif kind == 'hang':
        tl.append([start, 'hang'])
        tl.append([stop, 'unhang'])
      elif kind == 'blackhole':
        tl.append([start, ['blackhole', plan.get('blackhole_s', 15)]])
        tl.append([stop, 'up'])
      else:
        tl.append([start, 'silent'])
        tl.append([stop, 'unsilent'])
    servers[str(p)] = sp
  calls = []
  k = 0
  t = 200
  while t < plan['end_ms']:
    calls.append({'at': t, 'method': 'hi', 'arg': 'c%d' % k, 'timeout_ms': None, 'via_dispatcher': False})
    k += 1
    b = plan.get('burst')
    if b and t <= b['at_ms'] < t + plan['period_ms']:
      for _ in range(b['n']):
        calls.append({'at': b['at_ms'], 'method': 'hi', 'arg': 'c%d' % k, 'timeout_ms': b['timeout_ms'], 'via_dispatcher': True})
        k += 1
    if plan.get('pairs'):
      calls.append({'at': t, 'method': 'hi', 'arg': 'c%d' % k, 'timeout_ms': None, 'via_dispatcher': False})
      k += 1
    t += plan['period_ms']
  return {
      'seed': plan['seed'], 'stack': plan['stack'], 'iface': 'hello', 'client_id': None,
      'balancer': plan['balancer'], 'resurrector': plan['resurrector'],
      'pool': ({'max': plan['pool_max'], 'min': 1, 'queue': None} if plan.get('pool_max') else None),
      'timeout_ms': T_MS, 'wait_open': True,
      'serverset': {'kind': 'uri', 'initial': plan['ports'], 'events': []},
      'servers': servers, 'calls': calls, 'run_ms': plan['end_ms'] + 1000, 'close_at': plan['close_at'],
      'close_on_connect': plan.get('close_on_connect'), 'close_on_error': plan.get('close_on_error'),
  }


def is_failfast(ex):
  return isinstance(ex, FailedFastError) or (isinstance(ex, ScalesError) and isinstance(ex.inner_exception, FailedFastError))


def execute(plan):
  world = to_world(plan)
  init_w, max_w, expo = plan['resurrector']
  flags = set()
  with World(seed=plan['seed']) as W:
    tr = run_world(world)
    base = tr.base
    net = tr.net
    close_t = tr.closed_at
    ports = plan['ports']
    period = plan['period_ms'] / 1000.0

    def ms(t):
      return (t - base) * 1000.0

    calls = [r for r in tr.calls if r.issued_at is not None]
    # (d) nothing after close
    if tr.close_seq is not None:
      late = [e for e in net.log if e[2] == 'connect' and e[0] > tr.close_seq]
      # a call that was in flight on a serial connection when the client was closed may reach its deadline afterwards;
      # the transport's in-place reconnect is then cut off when the connection is handed back to the closed pool.
      # Not held against the client: an attempt made within one call timeout of the close that is over within 5 ms of its start - it never got an outcome
      # (aborted), was refused at once, or was accepted and closed again at once
      def over_at_once(e):
        cid, t0_ = e[3], e[1]
        if t0_ > close_t + T_MS / 1000.0 + 0.05:
          return False          # no call that was in flight at close time can still be around
        evs = [(x[1], x[2]) for x in net.log if x[3] == cid and x[0] > e[0] and x[2] in ('connected', 'refused', 'connect_timeout', 'close')]
        if not evs:
          return True
        if evs[0][1] in ('refused', 'connect_timeout'):
          return evs[0][0] - t0_ <= 0.005
        closes_ = [t_ for t_, k_ in evs if k_ == 'close']
        return bool(closes_) and closes_[0] - t0_ <= 0.005
      cut_off = [e for e in late if over_at_once(e)]
      if cut_off:
        flags.add('reconnect_of_inflight_call_cut_off_by_close')
      late = [e for e in late if not over_at_once(e)]
      if late:
        raise Violation(ID, 'connect-after-close', 'connect attempt to %r %.1f s after DispatcherClose()' % (late[0][4], late[0][1] - close_t))
    connects = dict((p, []) for p in ports)       # port -> [(time, accepted?)]
    by_cid = {}
    for seq, t, kind_, cid, payload in net.log:
      kind = kind_
      if kind == 'connect':
        by_cid[cid] = [t, payload[1], None]
      elif kind in ('connected', 'refused', 'connect_timeout') and cid in by_cid:
        by_cid[cid][2] = (kind == 'connected')
    for cid, (t, port, ok) in by_cid.items():
      connects[port].append((t, ok))
    for p in ports:
      connects[p].sort()

    partial = bool(plan.get('affected'))
    for start_ms, stop_ms, kind in plan['phases']:
      D, R = base + start_ms / 1000.0, base + stop_ms / 1000.0
      if close_t is not None and close_t < R + max_w + 3:
        # the client was closed during / right after this phase: only the no-wait clause applies up to the close
        R_eff = min(R, close_t)
      else:
        R_eff = R
      D_known = D
      if kind == 'hang':
        # a hanging server is only known to be down once a reconnect (made after a call timed out) has been refused;
        # until then calls time out, or find their connection still busy reconnecting
        first_refused = {}
        for e in net.log:
          if e[2] in ('refused', 'connect_timeout') and e[1] > D and e[3] in by_cid:
            first_refused.setdefault(by_cid[e[3]][1], e[1])
        # ... and that for every endpoint: each one is found out separately
        D_known = (max(first_refused.values()) + 0.002) if len(first_refused) == len(ports) else R_eff
      during = [r for r in calls if max(D + 0.05, D_known) <= r.issued_at < R_eff - 0.01 and (close_t is None or r.issued_at < close_t)]
      # when was the fault observed?
      if kind == 'silent':
        # detected by an unanswered ping (30-40 s period + 5 s timeout)
        observed = None
        for r in during:
          if r.first and r.first[1] == 'error':
            observed = r.first[0]
            break
        # ... so, if the silence lasts, calls stop waiting for their deadlines at some point within that allowance
        limit = D + 46.0 + 6.0 + period
        if R_eff - D >= 62.0 + period and not partial and (observed is None or observed > limit) and not plan.get('burst'):
          raise Violation(ID, 'blackhole-not-detected', 'endpoints silent from %.1f s to %.1f s: %s; every call until then waited for its deadline (keep-alive ping period 30-40 s, ping timeout 5 s)' % (
              start_ms / 1000.0, stop_ms / 1000.0, 'the first call that failed without waiting came at %.1f s' % (ms(observed) / 1000.0) if observed else 'no call ever failed without waiting'))
        if observed is not None:
          flags.add('blackhole_detected_by_ping')
      elif kind == 'refuse':
        observed = D + 0.05
      elif plan['stack'] == 'thriftmux':
        observed = D + 0.01
      else:
        observed = None
        for r in during:
          if r.first and r.first[1] == 'error':
            observed = r.first[0] + 0.001
            break
      # (a) while everything is down: once an endpoint is known to be down, calls routed to it fail at once with
      # FailedFastError.  "Known" needs one contact per endpoint: a serial connection notices the reset at its next
      # use (one raw connection error), and an endpoint without a live connection is first contacted by the request
      # that makes the balancer open it (that request waits for the connect, at most until its own deadline).
      if kind != 'silent' and not partial:
        first_accept = min([t for p in ports for (t, ok) in connects[p] if ok and t > D + 0.01] + [float('inf')])
        live_at_D = set()
        for sq, t, k2, c2, _ in net.log:
          if t >= D:
            break
          if k2 == 'connected' and c2 in by_cid:
            live_at_D.add(c2)
          elif k2 in ('close', 'peer_reset', 'peer_eof'):
            live_at_D.discard(c2)
        never_connected = [p for p in ports if not [c for c in live_at_D if by_cid[c][1] == p]]
        allowed = len(ports) if plan['stack'] == 'thrift' else len(never_connected)
        used = 0
        fault_times = [t_ for name_, lvl_, msg_, t_ in W.log.records if 'Resurrector' in name_ and msg_.startswith('Attempting to reopen')]
        # connect attempts and how long each took: (start, end)
        inflight = []
        starts_ = {}
        for sq, t, k2, c2, _ in net.log:
          if k2 == 'connect':
            starts_[c2] = t
          elif k2 in ('connected', 'refused', 'connect_timeout') and c2 in starts_:
            inflight.append((starts_.pop(c2), t))
        for r in during:
          if r.issued_at >= first_accept - 0.002:
            continue
          if r.first is None:
            raise Violation(ID, 'waits-while-down', 'call %d issued at %.0f ms never completed' % (r.id, ms(r.issued_at)))
          ct, k, payload, _ = r.first
          if k == 'value':
            raise Violation(ID, 'success-while-down', 'call %d succeeded at %.0f ms while every endpoint was down' % (r.id, ms(ct)))
          fast = ct - r.issued_at <= 0.005
          if k == 'error' and is_failfast(payload) and fast:
            continue
          if not fast and [1 for (t0_, t1_) in inflight if t0_ - 0.001 <= ct and r.issued_at <= t1_ + 0.001]:
            continue      # it was waiting for a connect attempt whose outcome was not known yet
          if k == 'error' and 'ServiceClosedError' in repr(payload) and [1 for tf in fault_times if abs(ct - tf) <= 0.002]:
            continue      # it sat in the pool (queued, or waiting for a connection) at the moment the endpoint was declared down
          used += 1
          if used > allowed:
            if not fast:
              raise Violation(ID, 'waits-while-down', 'call %d issued at %.0f ms while every endpoint is down (down %.0f..%.0f ms) completed after %.1f ms (%s); %d first contacts were already accounted for (%d endpoints)' % (
                  r.id, ms(r.issued_at), start_ms, stop_ms, (ct - r.issued_at) * 1000, k, used - 1, len(ports)))
            raise Violation(ID, 'not-fail-fast-error', 'call %d issued at %.0f ms (every endpoint down %.0f..%.0f ms; %d earlier calls already were first contacts, %d endpoints) failed with %s instead of FailedFastError' % (
                r.id, ms(r.issued_at), start_ms, stop_ms, used - 1, len(ports), (repr(payload)[:160])))
      # (b) spacing of reconnect attempts while down.  A retry sequence starts when an endpoint's resurrector
      # announces it ("Attempting to reopen faulted channel", logged once per fault) and consists of the refused
      # connects to that endpoint that follow, until it reopens or the phase ends.
      starts = []
      for name, lvl, msg, t in W.log.records:
        if 'Resurrector' in name and D <= t < R_eff:
          port = int(name.rstrip(']').rsplit(':', 1)[1])
          if msg.startswith('Attempting to reopen'):
            starts.append([t, port, R_eff])
          elif msg.startswith('Reopened channel'):
            for st_ in starts:
              if st_[1] == port and st_[2] > t:
                st_[2] = t
      for i, (t_a, p, t_end) in enumerate(starts):
        later = [x[0] for x in starts[i + 1:] if x[1] == p]
        if later:
          t_end = min(t_end, later[0])
        # not a retry: the in-place reconnect of a serial transport whose call (sent before the endpoint was known to be
        # down) has just timed out - it closes its old, established connection and dials again in the same instant
        inplace = set()
        old_conns = set(c for c, (t0_, port_, ok_) in by_cid.items() if port_ == p and ok_ and t0_ < t_a)
        closes = [e[1] for e in net.log if e[2] == 'close' and e[3] in old_conns]
        for (t, ok) in connects[p]:
          if any(abs(t - tc) < 1e-5 for tc in closes):
            inplace.add(t)
        att = [t for (t, ok) in connects[p] if t_a + 0.01 < t < t_end and not ok and t not in inplace]
        if not att:
          continue
        obs_p = t_a
        gaps = [att[0] - obs_p] + [b - a for a, b in zip(att, att[1:])]
        where = 'endpoint %d down %.1f..%.1f s, resurrection started at %.1f s, reconnect attempts at %s s (config %r)' % (
            p, start_ms / 1000.0, stop_ms / 1000.0, ms(obs_p) / 1000.0, ['%.1f' % (ms(a) / 1000.0) for a in att[:8]], plan['resurrector'])
        for a, b in zip(gaps, gaps[1:]):
          if b < a - 0.05:
            raise Violation(ID, 'backoff-not-monotone', '%s: gap %.2f s after gap %.2f s' % (where, b, a))
        slow = (plan.get('refuse_delay_ms') or 0) / 1000.0
        if kind == 'blackhole':
          slow = plan.get('blackhole_s', 15)      # an attempt takes that long to fail
          flags.add('reconnect_attempts_time_out')
        for g in gaps:
          if g > max_w + 1.0 + slow:
            raise Violation(ID, 'backoff-above-max', '%s: gap %.2f s' % (where, g))
          if g < init_w - 0.1:
            raise Violation(ID, 'retry-too-early', '%s: gap %.2f s is below the initial wait' % (where, g))
        if len(gaps) >= 3 and gaps[0] < max_w - 0.1 and gaps[-1] <= gaps[0] + 0.1:
          raise Violation(ID, 'backoff-not-growing', '%s: gaps %s do not grow' % (where, ['%.2f' % g for g in gaps[:6]]))
        if len(gaps) >= 2:
          flags.add('backoff_observed')
      # (c) recovery
      if R_eff == R and (close_t is None or close_t > R + max_w + 3) and not partial:
        # a connect attempt that was started while the endpoint was down may only fail (slow refusal, connect
        # timeout) after the endpoint is back: that late failure still takes the endpoint down once, so "reachable
        # again" counts from the last such failure
        begun = {}
        late_fail = R
        for sq, t_, k2, c2, _ in net.log:
          if k2 == 'connect':
            begun[c2] = t_
          elif k2 in ('refused', 'connect_timeout') and c2 in begun and begun[c2] < R and t_ > R:
            late_fail = max(late_fail, t_)
        if plan.get('flaky_hops') is not None and [start_ms, stop_ms, kind] == plan['phases'][-1]:
          # the first connection after the outage is dropped right after its handshake: the endpoint counts as
          # reachable for good from that moment
          drops = [t_ for sq, t_, k2, c2, _ in net.log if k2 == 'peer_eof' and t_ >= R]
          if drops:
            late_fail = max(late_fail, drops[0])
            flags.add('first_connection_after_the_outage_dropped_after_its_handshake')
        if late_fail > R:
          flags.add('connect_begun_while_down_failed_after_recovery')
        R_phase_end = R
        R = late_fail
        if kind == 'silent':
          # a black-hole is only noticed by an unanswered ping (30-40 s period, 5 s timeout), possibly after the
          # endpoint answers again; a reconnect attempt in flight needs its own 5 s ping timeout to fail
          bound = R + 46.0 + max_w + 6.0 + period
        else:
          bound = R + max_w + 1.0 + period
        after = [r for r in calls if r.issued_at >= R]
        nxt = [s_ for s_, e, k in plan['phases'] if base + s_ / 1000.0 > R_phase_end]
        horizon = min([base + s_ / 1000.0 for s_ in nxt] + ([close_t] if close_t else []) + [tr.end])
        ok = [r for r in after if r.first and r.first[1] == 'value' and r.issued_at < horizon]
        if horizon > bound + period:
          if not ok or ok[0].first[0] > bound:
            raise Violation(ID, 'no-recovery', 'endpoints reachable again at %.1f s but no call succeeded by %.1f s (max retry interval %g s); first success: %s' % (
                stop_ms / 1000.0, ms(bound) / 1000.0, max_w, ('%.1f s' % (ms(ok[0].first[0]) / 1000.0)) if ok else 'none'))
          flags.add('recovery_observed')
          first_ok = ok[0].issued_at if kind != 'silent' else bound
          # connections that were established before the outage and have not been touched since: a serial connection
          # only notices at its next use that the peer reset it, which costs that one call (per such connection)
          stale = set()
          for sq, t, k2, c2, _ in net.log:
            if t >= D:
              break
            if k2 == 'connected' and c2 in by_cid:
              stale.add(c2)
            elif k2 in ('close', 'peer_eof'):
              stale.discard(c2)
          for r in after:
            if first_ok < r.issued_at < horizon - 0.35 and (r.first is None or r.first[1] != 'value'):
              if plan['stack'] == 'thrift' and r.first is not None and r.first[1] == 'error':
                hit = [e[3] for e in net.log if e[2] == 'close' and e[3] in stale and r.issued_at - 0.001 <= e[1] <= r.first[0] + 0.002]
                if hit:
                  stale.discard(hit[0])
                  flags.add('stale_connection_found_after_recovery')
                  continue
              raise Violation(ID, 'fails-after-recovery', 'call %d issued at %.1f s failed (%s) although the client had recovered at %.1f s' % (
                  r.id, ms(r.issued_at) / 1000.0, repr(r.first[2])[-120:] if r.first else None, ms(first_ok) / 1000.0))
    # (c2) staggered recovery (heap balancer): every endpoint is used again once it is reachable
    if (plan.get('stagger_ms') or partial) and close_t is None:
      order = list(ports)
      if plan.get('stagger_order') == 'desc':
        order.reverse()
      stop_ms = plan['phases'][0][1]
      for p in (plan['affected'] if partial else ports):
        R_p = base + (stop_ms + plan.get('stagger_ms', 0) * order.index(p)) / 1000.0
        bound = R_p + max_w + 1.0 + 60 * period + (46.0 + 6.0 if plan['phases'][0][2] == 'silent' else 0.0)
        if partial:
          flags.add('partial_outage')
        if bound > tr.end - 1.0:
          continue
        peer = tr.peers[p]
        log = peer.requests if hasattr(peer, 'requests') else [f for f in peer.frames if f.get('k') is not None]
        got = [q['t'] for q in log if R_p <= q['t'] <= bound]
        if not got:
          raise Violation(ID, 'endpoint-not-used-again', 'endpoint %d reachable again at %.1f s received no request by %.1f s (other endpoints recovered at other times or were never down; heap balancer)' % (
              p, ms(R_p) / 1000.0, ms(bound) / 1000.0))
        flags.add('staggered_recovery_observed')
    # values are echoes
    for r in calls:
      if r.first and r.first[1] == 'value' and r.first[2] not in [echo(p, 'hi', r.arg) for p in ports]:
        raise Violation(ID, 'foreign-value', 'call %d returned %r' % (r.id, r.first[2]))
  return Outcome(nontrivial=sorted(flags) if ('recovery_observed' in flags or 'staggered_recovery_observed' in flags) else None,
                 classes=['stack=' + plan['stack'], 'balancer=' + plan['balancer'], 'ports=%d' % len(plan['ports'])] + sorted(flags) +
                 (['closed_with_a_burst_of_calls_parked'] if plan.get('burst') else []))
