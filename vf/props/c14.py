"""C14 - framed Thrift calls and replies agree with the Thrift library's own codec."""
import math

from hypothesis import strategies as st

from vf.evidence import Outcome
from vf.world import World, Violation, settle, advance
from vf.simnet import SimNet, Server
from vf.peers.thrift_serial import ThriftSerialPeer
from vf.gen import weighted
from vf.fixtures.richsvc import Rich, RichChild, RichChild2, RichGrandChild

from thrift.Thrift import TApplicationException
from scales.constants import SinkProperties
from scales.core import ScalesUriParser
from scales.dispatch import MessageDispatcher, ScalesError
from scales.pool.watermark import WatermarkPoolSink
from scales.thrift.sink import SocketTransportSink, ThriftSerializerSink

from test.scales.thrift.gen_py.hello import Hello

ID = 'C14'
LEVEL = 'exploration'
RULE = ('Hypothesis-generated sequences of 1-5 calls on the repository\'s generated Hello interface and on a dynamic-style '
        'fixture (void ping, echo(string), add(i32,i64), put(struct{string,i32,list<string>,map<string,i64>,binary,bool,'
        'double}), risky(string) throws (E1,E2), void guard(string) throws (E1,E2), flag(bool), blob(binary), scale(double), names(i32)->list<string>) with '
        'Hypothesis values (text incl. non-ASCII/empty, full integer ranges, finite doubles), positional or keyword '
        'arguments, planned outcome value / declared exception / application exception, through MessageDispatcher -> '
        'ThriftSerializerSink -> thrift SocketTransportSink on the simulated socket (calls one after the other, or all at once from separate greenlets through a one-connection WatermarkPoolSink; send() accepting at most 1-4096 bytes per call). The peer decodes with the Thrift '
        'library\'s pure-Python TBinaryProtocol and a processor; each sequence is run under two read chunkings (whole '
        'frames and a drawn one: 1-byte reads, drawn sizes, a split inside the length prefix) and the outcomes compared. '
        'Non-trivial = non-ASCII or empty text, a struct argument, an exception or void outcome, or a reply split into >= '
        '3 reads. distinct = distinct non-trivial plans.')
ASSUMPTIONS = [
    'the fixture service is hand-written in the py:dynamic generated layout (no Thrift compiler in the sandbox); it is round-tripped through both library codecs at import',
    'text excludes lone surrogates (not encodable as UTF-8); doubles are finite',
    'non-void handlers return a non-None value',
]
BUDGET = {
    'quick': {'examples': 1200},
    'thorough': {'examples': 2500, 'shards': 16},
}

PORT = 9100
EP = ScalesUriParser.Endpoint('127.0.0.1', PORT)

I32 = st.integers(-2 ** 31, 2 ** 31 - 1)
I64 = st.integers(-2 ** 63, 2 ** 63 - 1)
TEXT = st.one_of(st.text(max_size=12), st.just(''), st.text(alphabet='aé€\U0001F600z', max_size=6), st.text(max_size=12),
                 st.text(alphabet='abcdefghij é', min_size=200, max_size=700))
# now and then a long text (16 kB, 64 kB, 1 MB: beyond one read buffer, one segment, a cautious frame limit), described compactly
BIGTEXT = weighted((9, TEXT), (1, st.fixed_dictionaries({
    'rep': st.text(alphabet='ab€', min_size=1, max_size=4), 'n': st.sampled_from([16362, 16363, 16384, 20000, 70000, 1100000])})))
DBL = st.floats(allow_nan=False, allow_infinity=False)
BIN = st.one_of(st.binary(max_size=40), st.binary(min_size=250, max_size=2000)).map(lambda b: b.hex())


def _item():
  return st.fixed_dictionaries({
      'name': st.one_of(st.none(), TEXT), 'count': st.one_of(st.none(), I32),
      'tags': st.one_of(st.none(), st.lists(TEXT, max_size=4)),
      'weights': st.one_of(st.none(), st.dictionaries(TEXT, I64, max_size=3)),
      'payload': st.one_of(st.none(), BIN), 'ok': st.one_of(st.none(), st.booleans()),
      'ratio': st.one_of(st.none(), DBL),
  })


def _call(child=False, grand=False):
  rich = st.one_of(
      st.fixed_dictionaries({'m': st.just('ping'), 'args': st.just([]), 'outcome': st.sampled_from(['void', 'void', 'appexc'])}),
      st.fixed_dictionaries({'m': st.just('echo'), 'args': st.tuples(BIGTEXT).map(list), 'outcome': st.sampled_from(['value', 'value', 'appexc']), 'ret': BIGTEXT}),
      st.fixed_dictionaries({'m': st.just('add'), 'args': st.tuples(I32, I64).map(list), 'outcome': st.just('value'), 'ret': st.one_of(I64, st.just(0))}),
      st.fixed_dictionaries({'m': st.just('put'), 'args': st.tuples(_item()).map(list), 'outcome': st.just('value'), 'ret': _item()}),
      st.fixed_dictionaries({'m': st.just('risky'), 'args': st.tuples(TEXT).map(list), 'outcome': st.sampled_from(['value', 'e1', 'e2', 'appexc']),
                             'ret': TEXT, 'exc': st.tuples(I32, TEXT).map(list)}),
      st.fixed_dictionaries({'m': st.just('guard'), 'args': st.tuples(TEXT).map(list), 'outcome': st.sampled_from(['void', 'e1', 'e2', 'appexc']),
                             'exc': st.tuples(I32, TEXT).map(list)}),
      st.fixed_dictionaries({'m': st.just('flag'), 'args': st.tuples(st.booleans()).map(list), 'outcome': st.just('value'), 'ret': st.booleans()}),
      st.fixed_dictionaries({'m': st.just('blob'), 'args': st.tuples(BIN).map(list), 'outcome': st.just('value'), 'ret': BIN}),
      st.fixed_dictionaries({'m': st.just('scale'), 'args': st.tuples(DBL).map(list), 'outcome': st.just('value'), 'ret': DBL}),
      st.fixed_dictionaries({'m': st.just('names'), 'args': st.tuples(I32).map(list), 'outcome': st.just('value'), 'ret': st.lists(TEXT, max_size=4)}),
      # two parameters of one type whose field ids are not in declaration order
      st.fixed_dictionaries({'m': st.just('place'), 'args': st.tuples(TEXT, TEXT).map(list), 'outcome': st.just('value'), 'ret': TEXT}),
  )
  if child:
    rich = st.one_of(
        rich, rich,
        st.fixed_dictionaries({'m': st.just('extra'), 'args': st.tuples(TEXT).map(list), 'outcome': st.sampled_from(['value', 'value', 'appexc']), 'ret': TEXT}),
        st.fixed_dictionaries({'m': st.just('poke'), 'args': st.just([]), 'outcome': st.sampled_from(['void', 'void', 'appexc'])}))
  if grand:
    rich = st.one_of(
        rich, rich,
        st.fixed_dictionaries({'m': st.just('deep'), 'args': st.tuples(TEXT).map(list), 'outcome': st.sampled_from(['value', 'value', 'appexc']), 'ret': TEXT}))
  # positional, all by keyword, or by keyword with the first parameter left out (it is then unset: the server sees None)
  return rich.flatmap(lambda c: st.sampled_from([False, False, True, True, 'partial']).map(lambda kw: dict(c, kw=kw)))


def _call2():
  # the second inherited service: same method names as the first one, different structs
  c = st.one_of(
      st.fixed_dictionaries({'m': st.just('ping'), 'args': st.just([]), 'outcome': st.sampled_from(['void', 'void', 'appexc'])}),
      st.fixed_dictionaries({'m': st.just('echo'), 'args': st.tuples(I64).map(list), 'outcome': st.sampled_from(['value', 'value', 'appexc']), 'ret': I64}),
      st.fixed_dictionaries({'m': st.just('extra'), 'args': st.tuples(I32).map(list), 'outcome': st.just('value'), 'ret': I32}))
  return c.flatmap(lambda c_: st.booleans().map(lambda kw: dict(c_, kw=kw)))


ARG_NAMES2 = {'ping': [], 'echo': ['n'], 'extra': ['k']}


def strategy(tier):
  hello_call = st.fixed_dictionaries({'m': st.just('hi'), 'args': st.tuples(TEXT).map(list),
                                      'outcome': st.sampled_from(['value', 'value', 'appexc']), 'ret': TEXT, 'kw': st.booleans()})
  chunks = st.one_of(st.just('bytes'), st.just('split_prefix'),
                     st.lists(st.integers(1, 9), min_size=1, max_size=6))
  env = {'chunks': chunks,
         # all calls issued at once from separate greenlets through a one-connection pool (they wait, serialized, for the connection)
         'concurrent': st.sampled_from([False, False, True]),
         # most bytes a single send() accepts
         'send_max': st.sampled_from([None, None, 1, 7, 64, 4096]),
         # another kind of client is configured in the same process first (its options must stay its own)
         'http_builder_first': st.sampled_from([False, False, True]),
         # concurrent calls: connections in the pool; how the bytes of a reply arrive: at once, or as segments 1 ms apart
         # (sizes of the first segments, the rest follows), so that a reader blocks part-way through a prefix or a body
         'pool_max': st.sampled_from([1, 1, 2]),
         'segments': st.sampled_from([None, None, [3], [1, 2], [3, 1, 40], [2, 300], [5, 5, 5]])}
  return st.one_of(
      st.fixed_dictionaries(dict(env, svc=st.just('rich'), calls=st.lists(_call(), min_size=1, max_size=5))),
      st.fixed_dictionaries(dict(env, svc=st.just('rich'), calls=st.lists(_call(), min_size=1, max_size=5))),
      st.fixed_dictionaries(dict(env, svc=st.just('richchild'), calls=st.lists(_call(True), min_size=1, max_size=5))),
      st.fixed_dictionaries(dict(env, svc=st.just('richgrandchild'), calls=st.lists(_call(True, True), min_size=1, max_size=5))),
      st.fixed_dictionaries(dict(env, svc=st.just('richchild2'), calls=st.lists(_call2(), min_size=1, max_size=4))),
      st.fixed_dictionaries(dict(env, svc=st.just('hello'), calls=st.lists(hello_call, min_size=1, max_size=4))),
  )


ARG_NAMES = {'ping': [], 'echo': ['text'], 'add': ['a', 'b'], 'put': ['item'], 'risky': ['what'], 'guard': ['what'], 'flag': ['v'],
             'blob': ['data'], 'scale': ['x'], 'names': ['n'], 'place': ['label', 'zone'], 'hi': ['test_data'], 'extra': ['text'], 'poke': [], 'deep': ['text']}


def _to_item(d):
  d = dict(d)
  if d.get('payload') is not None:
    d['payload'] = bytes.fromhex(d['payload'])
  return Rich.Item(**d)


def _real(m, v):
  """plan value -> python value for method m (argument or return)."""
  if isinstance(v, dict) and 'rep' in v:
    return (v['rep'] * (v['n'] // len(v['rep']) + 1))[:v['n']]
  if m == 'put':
    return _to_item(v)
  if m == 'blob':
    return bytes.fromhex(v)
  return v


def _same(a, b):
  if isinstance(a, float) and isinstance(b, float):
    return a == b or (math.isnan(a) and math.isnan(b))
  return a == b and type(a) == type(b)


def _run_once(plan, chunks):
  """Returns list of (kind, value) outcomes seen by the caller, plus stats."""
  net = SimNet()
  net.install()
  net.send_max = plan.get('send_max')
  reads = {'n': 0}
  sizes = {'i': 0}

  def chunker(sock, avail, want):
    reads['n'] += 1
    if chunks == 'whole':
      return avail
    if chunks == 'bytes':
      return 1
    if chunks == 'split_prefix':
      return 2 if want == 4 else avail
    sizes['i'] += 1
    return chunks[sizes['i'] % len(chunks)]
  net.chunker = chunker
  seg = plan.get('segments')
  if seg:
    def trickle(sock, data):
      out, pos = [], 0
      for k in seg:
        if pos + k >= len(data):
          break
        out.append((0.001 if out else 0.0, data[pos:pos + k]))
        pos += k
      out.append((0.001 if out else 0.0, data[pos:]))
      return out
    net.trickle = trickle

  calls = plan['calls']
  cur = {'i': 0}

  answered = {'n': 0}

  def respond(method, args):
    # the k-th request to arrive is answered with the planned outcome of the k-th call (one connection, FIFO)
    c = calls[answered['n']]
    answered['n'] += 1
    o = c['outcome']
    if o == 'appexc':
      raise RuntimeError('handler blew up')
    if o == 'e1':
      raise Rich.E1(c['exc'][1])
    if o == 'e2':
      raise Rich.E2(c['exc'][0], c['exc'][1])
    if o == 'void':
      return None
    return _real(method, c['ret'])

  if plan['svc'] == 'rich':
    iface, pf = Rich.Iface, Rich.Processor
  elif plan['svc'] == 'richchild':
    iface, pf = RichChild.Iface, RichChild.Processor
  elif plan['svc'] == 'richgrandchild':
    iface, pf = RichGrandChild.Iface, RichGrandChild.Processor
  elif plan['svc'] == 'richchild2':
    iface, pf = RichChild2.Iface, RichChild2.Processor
  else:
    iface, pf = Hello.Iface, Hello.Processor
  peer = ThriftSerialPeer(pf, respond)
  Server(net, ('127.0.0.1', PORT), peer)

  if plan.get('http_builder_first'):
    from scales.thrifthttp.builder import ThriftHttp
    ThriftHttp.NewBuilder(iface, '/svc')       # merely configuring it: JSON protocol for that client, not for this one
  ser = ThriftSerializerSink.Builder()
  concurrent = bool(plan.get('concurrent'))
  if concurrent:
    pool = WatermarkPoolSink.Builder(min_watermark=1, max_watermark=plan.get('pool_max', 1))
    ser.next_provider = pool
    pool.next_provider = SocketTransportSink.Builder()
  else:
    ser.next_provider = SocketTransportSink.Builder()
  disp = MessageDispatcher(iface, ser, 10, {SinkProperties.Label: 'svc', SinkProperties.ServiceInterface: iface,
                                             SinkProperties.Endpoint: EP})
  disp.Open()
  advance(0.01)
  outcomes = []

  def issue(c):
    m = c['m']
    args = [_real(m, a) for a in c['args']]
    if c['kw']:
      names = ARG_NAMES2 if plan['svc'] == 'richchild2' else ARG_NAMES
      kw = dict(zip(names[m], args))
      if c['kw'] == 'partial' and names[m]:
        del kw[names[m][0]]
      return disp.DispatchMethodCall(m, (), kw)
    return disp.DispatchMethodCall(m, tuple(args), {})

  ars = None
  if concurrent:
    ars = [issue(c) for c in calls]
    advance(0.05 * len(calls) + 0.05)
  for i, c in enumerate(calls):
    cur['i'] = i
    m = c['m']
    args = [_real(m, a) for a in c['args']]
    if c['kw'] == 'partial' and args:
      args[0] = None      # left out by the caller
    n_before = len(peer.requests)
    r_before = reads['n']
    if concurrent:
      ar = ars[i]
    else:
      ar = issue(c)
      advance(0.05)
    where = 'call %d %s%r [%s reads%s]' % (i, m, tuple(c['args']), chunks, ', all calls issued at once' if concurrent else '')
    if not ar.ready():
      raise Violation(ID, 'no-completion', '%s: the call did not complete' % where)
    # what the server saw
    if concurrent:
      if len(peer.requests) != len(calls):
        raise Violation(ID, 'request-count', '%s: server decoded %d requests for %d calls' % (where, len(peer.requests), len(calls)))
      rq = peer.requests[i]
    else:
      if len(peer.requests) != n_before + 1:
        raise Violation(ID, 'request-count', '%s: server decoded %d requests' % (where, len(peer.requests) - n_before))
      rq = peer.requests[-1]
    if rq.get('decode_error'):
      raise Violation(ID, 'request-undecodable', '%s: library processor could not decode the request: %s' % (where, rq['decode_error']))
    if rq['method'] != m:
      raise Violation(ID, 'wrong-method', '%s: server decoded method %r' % (where, rq['method']))
    if len(rq['args']) != len(args) or not all(_same(x, y) for x, y in zip(rq['args'], args)):
      raise Violation(ID, 'wrong-args', '%s: server decoded arguments %r' % (where, rq['args']))
    if peer.leftover() or peer.bad:
      raise Violation(ID, 'bad-framing', '%s: bytes left over after the frame / bad prefix: %r %r' % (where, peer.leftover(), peer.bad))
    # what the caller got
    o = c['outcome']
    if o in ('value', 'void'):
      want = None if o == 'void' else _real(m, c['ret'])
      if ar.exception is not None:
        raise Violation(ID, 'value-raised', '%s: expected value %r, call raised %r' % (where, want, ar.exception))
      if not _same(ar.value, want):
        key = 'void-not-none' if o == 'void' else 'wrong-value'
        raise Violation(ID, key, '%s: expected %r, caller got %r' % (where, want, ar.value))
      outcomes.append(('value', repr(ar.value)))
    else:
      ex = ar.exception
      if ex is None:
        raise Violation(ID, 'exception-not-raised', '%s: planned outcome %s, caller got value %r' % (where, o, ar.value))
      if not isinstance(ex, ScalesError):
        raise Violation(ID, 'exception-not-wrapped', '%s: caller got %r, not the library error' % (where, ex))
      inner = ex.inner_exception
      if o == 'appexc':
        if not isinstance(inner, TApplicationException):
          raise Violation(ID, 'wrong-inner-exception', '%s: inner exception %r, expected TApplicationException' % (where, inner))
      else:
        want = Rich.E1(c['exc'][1]) if o == 'e1' else Rich.E2(c['exc'][0], c['exc'][1])
        if type(inner) is not type(want) or inner != want:
          raise Violation(ID, 'wrong-inner-exception', '%s: inner exception %r, expected %r' % (where, inner, want))
      outcomes.append(('error', type(inner).__name__, repr(inner) if o != 'appexc' else ''))
    if reads['n'] - r_before >= 3:
      outcomes[-1] = outcomes[-1] + ()
  disp.Close()
  settle()
  return outcomes, reads['n']


def execute(plan):
  nt = []
  with World(seed=0):
    a, _ = _run_once(plan, 'whole')
  with World(seed=0):
    b, nreads = _run_once(plan, plan['chunks'])
  if a != b:
    raise Violation(ID, 'chunking-dependent', 'outcomes differ between whole-frame reads %r and %r reads %r' % (a, plan['chunks'], b))
  for c in plan['calls']:
    texts = [x for x in c['args'] if isinstance(x, str)] + ([c['ret']] if isinstance(c.get('ret'), str) else [])
    if any(t == '' or any(ord(ch) > 127 for ch in t) for t in texts):
      nt.append('non-ascii/empty text')
    if c['m'] == 'put':
      nt.append('struct')
    if c['outcome'] != 'value':
      nt.append(c['outcome'])
  if nreads >= 3 * len(plan['calls']) + 2:
    nt.append('reply split into >=3 reads')
  return Outcome(nontrivial=sorted(set(nt)) or None,
                 classes=['svc=' + plan['svc']] + (['all_calls_at_once'] if plan.get('concurrent') else []) +
                 (['send_max=%s' % plan.get('send_max')] if plan.get('send_max') else []) + sorted(set('m=' + c['m'] for c in plan['calls'])) + sorted(set(nt)))
