"""C01 - every call completes exactly once, no later than its deadline."""
from hypothesis import strategies as st

from vf.evidence import Outcome
from vf.world import World, Violation
from vf.stack import run_world, ceil10ms, same_outcome, echo
from vf.gen import sized_list, weighted

ID = 'C01'
LEVEL = 'exploration'
RULE = ('Hypothesis-generated world plans: stack in {Thrift (aperture / resurrector / watermark pool / serial transport), '
        'ThriftMux (with and without client id)} built by the public builders, 1-4 endpoints given as a tcp:// URI or through a '
        'harness server-set provider with join/leave events, calls issued after the client opened or (a third of the plans) '
        'while it is still opening with first-connect delays from 1 ms to longer than the timeout, per endpoint a connect '
        'script (accept after d / refuse / hang) and a per-request script (reply after d / never / application error / close / '
        'reset / half a frame then close / mux ERROR, NACK, Rerr), server kill / down / up / silent events, 1-8 calls with '
        'timeout T in {20, 50, 100, 250 ms, 1 s, and in one plan of 16 5.5 s; per-call timeouts up to 6.2 s}; a sixth of the plans run for ~5 s with an aperture that jitters every 1-2 s over 2-4 endpoints with connect delays up to 2.5 s; delays are drawn from a palette centred on each deadline (T-11 .. T+11 ms, 0, '
        '1, 5 ms, 10 T). Oracle per call: completes exactly once by the end of the run, value/exception at the end equal to '
        'the first completion, outcome is the echo of one endpoint / an error / TimeoutError, completion <= ceil10ms(t+T) + '
        '1 ms, TimeoutError never before t+T - 1 ms. Non-trivial = some reply, fault or open completion fell within 15 ms of a '
        'deadline, or a call was issued before open completed, or a timed-out call later received a reply. distinct = '
        'distinct non-trivial plans.')
ASSUMPTIONS = [
    'kernel sockets and the libev timer heap are replaced by the simulation; decided for the Python code above gsocket',
    'time comparisons carry a 1 ms tolerance; call times lie on a 1 ms grid',
    'peers are correct-but-slow/lossy: they never forge replies',
]
BUDGET = {
    'quick': {'examples': 1200, 'seconds': 75},
    'thorough': {'examples': 4000, 'shards': 16},
}

TIMEOUTS = [20, 50, 100, 250, 1000]
TOL = 0.001


def palette(T):
  return sorted(set(d for d in [0, 1, 5, T - 11, T - 10, T - 9, T - 1, T, T + 1, T + 9, T + 10, T + 11, 10 * T] if d >= 0))


def server_strategy(T, stack):
  d = st.sampled_from(palette(T))
  kinds = ['reply', 'reply', 'reply', 'never', 'close', 'reset']
  if stack == 'thrift':
    kinds += ['eof_mid', 'etimedout']
  else:
    kinds += ['error', 'nack', 'rerr']
  req = st.tuples(st.sampled_from(kinds), d).map(lambda t: [t[0], t[1]] + (['boom'] if t[0] in ('error', 'rerr') else []))
  connect = st.one_of(st.tuples(st.just('accept'), st.sampled_from([1, 1, 5] + palette(T))).map(list),
                      st.just(['refuse', 1]), st.tuples(st.just('hang'), st.sampled_from([5, T - 1, T + 1, 3 * T])).map(list))
  ev = st.tuples(st.integers(0, 3 * T), st.sampled_from(['kill', 'down', 'up', 'close', 'silent'])).map(list)
  return st.fixed_dictionaries({
      'connect': st.lists(connect, max_size=3),
      'requests': st.lists(req, max_size=6),
      'timeline': st.lists(ev, max_size=2),
  })


@st.composite
def plans(draw, stacks=('thrift', 'thriftmux'), max_calls=8):
  # mostly short timeouts; now and then one of several seconds (where a coarser timer might be tempting)
  T = draw(st.sampled_from(TIMEOUTS * 3 + [5500]))
  stack = draw(st.sampled_from(list(stacks)))
  nports = draw(st.integers(1, 4))
  ports = [9001 + i for i in range(nports)]
  dynamic = draw(st.booleans())
  initial = ports if not dynamic else draw(st.lists(st.sampled_from(ports), min_size=1, max_size=nports, unique=True))
  events = []
  if dynamic:
    events = draw(st.lists(st.tuples(st.integers(0, 3 * T), st.sampled_from(['join', 'leave']), st.sampled_from(ports)).map(list), max_size=4))
  servers = dict((str(p), draw(server_strategy(T, stack))) for p in ports)
  ncalls = draw(st.integers(1, max_calls))
  calls = []
  for i in range(ncalls):
    calls.append({'at': draw(st.integers(0, 2 * T)), 'method': 'hi', 'arg': 'c%d' % i,
                  'timeout_ms': draw(st.sampled_from([None, None, None, None, None, None, 20, 20, 50, 50, 100, 100, 6200])),
                  'via_dispatcher': draw(st.booleans())})
  wait_open = draw(st.sampled_from([True, True, False]))
  pool = None
  if stack == 'thrift':
    pool = draw(st.one_of(st.none(), st.fixed_dictionaries({'max': st.integers(1, 3), 'min': st.integers(0, 1), 'queue': st.one_of(st.none(), st.integers(0, 3))})))
  return {
      'seed': draw(st.integers(0, 2 ** 16)), 'stack': stack, 'iface': 'hello',
      'client_id': draw(st.sampled_from([None, 'client-a'])) if stack == 'thriftmux' else None,
      'balancer': draw(st.sampled_from(['default', 'default', 'heap'])), 'pool': pool,
      'timeout_ms': T, 'wait_open': wait_open,
      'serverset': {'kind': 'dynamic' if dynamic else 'uri', 'initial': initial, 'events': events},
      'servers': servers, 'calls': calls,
      'run_ms': 2 * T + max([c['timeout_ms'] or T for c in calls] + [T]) + 1000,
      # one plan in eight: the application closes the client in the very instant it has issued one of its calls
      # (calls still in flight then end with an error or with their timeout, as always exactly once and in time)
      'close_at': (calls[draw(st.integers(0, len(calls) - 1))]['at'] if calls and draw(st.sampled_from([False] * 7 + [True])) else None),
      # ThriftMux, one plan in eight: a connection whose tag space is all but used up (two tags left): further calls find no tag
      'tag_state': ([2 ** 24 - 4, []] if stack == 'thriftmux' and draw(st.sampled_from([False] * 7 + [True])) else None),
  }


@st.composite
def jitter_plans(draw):
  """Long-ish runs with an aperture that re-shuffles its members every 1-2 s while calls are in flight: more endpoints
  than the aperture uses, slow connects for the ones swapped in, unanswered or slowly answered calls."""
  T = draw(st.sampled_from([250, 1000]))
  stack = draw(st.sampled_from(['thriftmux', 'thriftmux', 'thrift']))
  nports = draw(st.integers(2, 4))
  ports = [9001 + i for i in range(nports)]
  servers = {}
  for p in ports:
    servers[str(p)] = {
        'connect': [draw(st.sampled_from([['accept', 1], ['accept', 1], ['accept', 300], ['accept', 900], ['accept', 2500], ['refuse', 400]]))
                    for _ in range(3)],
        'requests': draw(st.lists(st.sampled_from([['never', 0], ['never', 0], ['reply', 5], ['reply', T - 10], ['reply', T + 10], ['reply', 3 * T]]), max_size=6)),
        'timeline': []}
  calls = []
  for i in range(draw(st.integers(2, 8))):
    calls.append({'at': draw(st.integers(0, 2600)), 'method': 'hi', 'arg': 'c%d' % i,
                  'timeout_ms': draw(st.sampled_from([None, None, 250, 1000])), 'via_dispatcher': draw(st.booleans())})
  return {
      'seed': draw(st.integers(0, 2 ** 16)), 'stack': stack, 'iface': 'hello', 'client_id': None,
      'balancer': 'aperture', 'aperture': {'jitter_min_sec': 1, 'jitter_max_sec': draw(st.integers(1, 2)),
                                           'min_size': draw(st.integers(1, 2)), 'max_size': nports},
      'pool': None, 'timeout_ms': T, 'wait_open': True,
      'serverset': {'kind': 'uri', 'initial': ports, 'events': []},
      'servers': servers, 'calls': calls, 'run_ms': 2600 + 1000 + 1200, 'close_at': None,
  }


def strategy(tier):
  base = plans(max_calls=8 if tier == 'quick' else 16)
  return weighted((5, base), (1, jitter_plans()))


def check_calls(tr, prop=ID):
  """The C01 oracle (also used by other world properties as a sanity layer)."""
  plan = tr.plan
  ports = [int(p) for p in plan['servers']]
  flags = set()
  for rec in tr.calls:
    if rec.issued_at is None:
      continue
    where = 'call %d (%s, issued at %+.1f ms%s, T=%g ms)' % (
        rec.id, rec.arg, (rec.issued_at - tr.base) * 1000, ', before open completed' if rec.before_open else '', rec.timeout * 1000)
    if rec.issue_error is not None:
      raise Violation(prop, 'issue-raised', '%s: issuing the call raised %r' % (where, rec.issue_error))
    t, T = rec.issued_at, rec.timeout
    if rec.before_open:
      flags.add('issued_before_open')
    if rec.first is None:
      key = 'never-completed-preopen' if rec.before_open else 'never-completed'
      raise Violation(prop, key, '%s: not completed %.0f ms after its deadline' % (where, (tr.end - t - T) * 1000))
    ct, kind, payload, seq = rec.first
    fin = tr.final.get(rec.id)
    if fin is None or not same_outcome((kind, payload), fin) or tr.final_snapshot.get(rec.id) != rec.first_snapshot:
      raise Violation(prop, 'completion-changed', '%s: first completed as %r, at the end of the run the result shows %r' % (
          where, rec.first_snapshot, tr.final_snapshot.get(rec.id)))
    if kind == 'value':
      if payload not in [echo(p, rec.method, rec.arg) for p in ports]:
        raise Violation(prop, 'foreign-value', '%s: returned %r, which no endpoint produced for this call' % (where, payload))
    limit = ceil10ms(t + T) + TOL
    if ct > limit:
      key = 'late-completion-preopen' if (rec.before_open and tr.open_done_at is not None and tr.open_done_at > t + T - TOL) else 'late-completion'
      raise Violation(prop, key, '%s: completed (%s) %.3f ms after t+T rounded up to the 10 ms timer resolution' % (
          where, kind, (ct - ceil10ms(t + T)) * 1000))
    if kind == 'timeout' and ct < t + T - TOL:
      key = 'early-timeout-preopen' if rec.before_open else 'early-timeout'
      raise Violation(prop, key, '%s: TimeoutError delivered %.3f ms before t+T' % (where, (t + T - ct) * 1000))
    if abs(ct - (t + T)) <= 0.015:
      flags.add('completion_within_15ms_of_deadline')
    flags.add('outcome=' + kind)
  # replies that arrived after a timeout
  for port, peer in tr.peers.items():
    pass
  return flags


def near_deadline_events(tr):
  """Did a reply / fault / open completion fall within 15 ms of some call's deadline?"""
  dl = [r.issued_at + r.timeout for r in tr.calls if r.issued_at is not None]
  for e in tr.net.log:
    if e[2] in ('rx', 'peer_eof', 'peer_reset', 'refused', 'connected', 'connect_timeout'):
      if any(abs(e[1] - d) <= 0.015 for d in dl):
        return True
  if tr.open_done_at is not None and any(abs(tr.open_done_at - d) <= 0.015 for d in dl):
    return True
  return False


def late_reply_after_timeout(tr):
  for r in tr.calls:
    if r.first and r.first[1] == 'timeout':
      for e in tr.net.log:
        if e[2] == 'rx' and e[1] > r.first[0]:
          return True
  return False


def execute(plan):
  with World(seed=plan['seed']):
    tr = run_world(plan)
    flags = check_calls(tr)
    nt = []
    if near_deadline_events(tr):
      nt.append('event within 15 ms of a deadline')
    if 'issued_before_open' in flags:
      nt.append('issued before open')
    if late_reply_after_timeout(tr):
      nt.append('reply after timeout')
  return Outcome(nontrivial=nt or None, classes=['stack=' + plan['stack'], 'ss=' + plan['serverset']['kind']] + sorted(flags) + nt)
