"""C07 - watermark pool bounds concurrency, queues FIFO and never leaks capacity."""
import gevent
from hypothesis import strategies as st

from vf.evidence import Outcome
from vf.world import World, Violation, HarnessError, settle, advance
from vf.boot import loop
from vf.gen import sized_list, weighted

from scales.asynchronous import AsyncResult
from scales.constants import ChannelState, Int, SinkProperties
from scales.core import ScalesUriParser
from scales.dispatch import ServiceClosedError
from scales.message import Deadline, MethodCallMessage, MethodReturnMessage, TimeoutError
from scales.pool.watermark import WatermarkPoolSink, MaxWaitersError
from scales.sink import ClientMessageSink, ClientMessageSinkStack, SinkProviderBase, TimeoutSinkProvider

ID = 'C07'
LEVEL = 'exploration'
RULE = ('Hypothesis-generated configurations (min_watermark 0-2, max_watermark 1-4, max_queue_len 0-4 or unbounded, '
        'connection open delay 0-120 ms, up to 4 connections whose open is refused) and histories (<= 60 ops) of submit(timeout 20-200 ms or none) / complete(any lent '
        'request, reply or error) / complete two lent requests in the same instant / complete a request whose connection dies in the same instant / Open() again on the pool in use / advance(1-150 ms) / one optional kill(connection, '
        'lent or idle) at a drawn step, against ClientTimeoutSink -> WatermarkPoolSink built from their providers over harness connections. '
        'Observed after every step: connections in existence <= max, no connection lent twice, FIFO start order of queued '
        'requests, max-waiters errors exactly when the queue is full and at once, work conservation (a live waiter implies '
        'all connections busy), dead-on-release closes the pool and fails each waiter once with ServiceClosedError; at the '
        'end: every request completed once, at most min_watermark connections retained, and a burst of max requests all '
        'reach connections (no capacity leaked), also after the pool has been closed and opened again; a closed pool with nothing in flight keeps no connection open. Non-trivial = a request expired while queued and a release happened '
        'afterwards, or two releases in one instant met a single waiter. distinct = distinct non-trivial plans.')
ASSUMPTIONS = [
    'a refused open fails the request it was made for and leaves the pool usable (its owner is told through on_faulted; what the owner then does belongs to C09); requests queued at that moment are not followed further',
    'a lent request that timed out no longer occupies its connection (the real serial transport reconnects)',
    'when expired requests may still sit in the queue, both queueing and a max-waiters error are accepted for a new request',
]
BUDGET = {
    'quick': {'examples': 1500},
    'thorough': {'examples': 3000, 'shards': 16},
}

EP = ScalesUriParser.Endpoint('h', 7000)


def strategy(tier):
  cfg = st.fixed_dictionaries({
      'min': st.integers(0, 2), 'max': st.sampled_from([1, 1, 2, 2, 3, 4]),
      'queue': st.one_of(st.none(), st.integers(0, 4)),
      'open_delay_ms': st.sampled_from([[0], [0], [5], [0, 20], [1, 0, 10], [0, 60], [0, 30, 120]]),
      # connections (by creation index, never the first) whose open is refused after its delay
      'open_fails': st.one_of(st.just([]), st.just([]), st.lists(st.integers(1, 12), max_size=4, unique=True)),
  }).map(lambda c: dict(c, min=min(c['min'], c['max'])))
  pairs = [
      (8, st.tuples(st.just('submit'), st.sampled_from([None, None, 20, 20, 50, 100, 200])).map(list)),
      (5, st.tuples(st.just('complete'), st.integers(0, 20), st.sampled_from(['reply', 'reply', 'error'])).map(list)),
      (2, st.tuples(st.just('complete2'), st.integers(0, 20), st.integers(0, 20)).map(list)),
      (4, st.tuples(st.just('advance'), st.sampled_from([1, 5, 10, 25, 25, 60, 150])).map(list)),
      # a lent request is answered and its connection dies in the same instant (before the pool has handed it on)
      (1, st.tuples(st.just('complete_die'), st.integers(0, 20)).map(list)),
      # the owner calls Open() again on the pool that is already open and in use
      (1, st.just(['open_again'])),
  ]
  kill = st.one_of(st.none(), st.none(), st.tuples(st.integers(0, 60), st.integers(0, 8), st.booleans()).map(list))
  return st.fixed_dictionaries({'config': cfg, 'ops': sized_list(weighted(*pairs), 0, 60 if tier == 'quick' else 160), 'kill': kill,
                                # whether the owner's Close() (before the pool is opened again) comes while requests are in flight
                                'close_with_lent': st.booleans()})


class Conn(ClientMessageSink):
  def __init__(self, run, idx, delay):
    ClientMessageSink.__init__(self)
    self.run = run
    self.idx = idx
    self.delay = delay
    self._state = ChannelState.Idle
    self.closed_at = None
    self.close_calls = 0
    self.log = []
    self.opening = False
    self._open_ar = None
    self.killed = False
    self.refused = False

  def __repr__(self):
    return 'conn%d' % self.idx

  @property
  def state(self):
    return self._state

  def Open(self):
    if self._open_ar is None:
      ar = self._open_ar = AsyncResult()
      self.opening = True

      def done():
        self.opening = False
        if self.idx in self.run.cfg.get('open_fails', ()):
          # never became a connection; the pool still has on_faulted to raise and keeps working for its owner
          self.refused = True
          self._state = ChannelState.Closed
          self.closed_at = loop.now()
          self.run.on_open_refused(self)
          ar.set_exception(OSError(111, 'connection refused (conn%d)' % self.idx))
          return
        if self._state == ChannelState.Idle:
          self._state = ChannelState.Open
        ar.set(True)
      if self.delay:
        g = gevent.Greenlet(done)
        g.start_later(self.delay)
      else:
        done()
    return self._open_ar

  def Close(self):
    self.close_calls += 1
    if self.closed_at is None:
      self.closed_at = loop.now()
    self._state = ChannelState.Closed

  def active_req(self):
    for r in reversed(self.log):
      if not r.answered and not r.completions:
        return r
    return None

  def AsyncProcessRequest(self, sink_stack, msg, stream, headers):
    r = msg.properties['__vf_req']
    prev = self.active_req()
    if prev is not None:
      self.run.fail('lent-twice', '%r given request %d while request %d is unanswered on it' % (self, r.id, prev.id))
    if self.closed_at is not None and not self.killed:
      self.run.fail('closed-conn-used', '%r used for request %d after the pool closed it' % (self, r.id))
    self.log.append(r)
    r.conn = self
    r.reached_at = loop.now()
    self.run.on_reach(r)
    if r.completions:
      # its deadline passed while the pool was still opening this connection for it: like the real transports,
      # the connection answers an expired request at once with TimeoutError (which hands the connection back)
      r.answered = True
      self.run.flags.add('expired_while_connection_opened')
      sink_stack.AsyncProcessResponseMessage(MethodReturnMessage(error=TimeoutError()))

  def AsyncProcessResponse(self, sink_stack, context, stream, msg):
    pass


class ConnProvider(SinkProviderBase):
  def __init__(self, run):
    SinkProviderBase.__init__(self)
    self.run = run
    self.conns = []

  def CreateSink(self, properties):
    d = self.run.cfg['open_delay_ms']
    c = Conn(self.run, len(self.conns), d[len(self.conns) % len(d)] / 1000.0)
    self.conns.append(c)
    return c

  @property
  def sink_class(self):
    return Conn


class Terminal(ClientMessageSink):
  def AsyncProcessRequest(self, *a):
    raise HarnessError('terminal')

  def AsyncProcessResponse(self, sink_stack, context, stream, msg):
    context.completions.append((loop.now(), msg))


class Req(object):
  def __init__(self, rid, timeout):
    self.id = rid
    self.timeout = timeout
    self.submitted = loop.now()
    self.deadline = None if timeout is None else self.submitted + timeout
    self.completions = []
    self.conn = None
    self.reached_at = None
    self.answered = False
    self.stack = None
    self.excused = False      # was queued when an open was refused: the pool reports the fault to its owner and does not open for waiters
    self.queued = False       # was waiting (neither on a connection nor completed) at the quiescent point after submission
    self.expect_closed_error = False

  def expired(self):
    return bool(self.completions) and isinstance(self.completions[0][1].error, TimeoutError)


class Run(object):
  def __init__(self, plan):
    self.plan = plan
    self.cfg = plan['config']
    self.reqs = []
    self.flags = set()
    self.failure = None
    self.step = -1
    self.cur_op = None
    self.pool_closed_expected = False
    self.dead_in_queue = []       # ids of requests that expired while queued and may still sit in the pool's queue

  @property
  def expired_while_queued(self):
    return len(self.dead_in_queue)

  def fail(self, key, detail):
    v = Violation(ID, key, '%s (step %d: %r)' % (detail, self.step, self.cur_op))
    if self.failure is None:
      self.failure = v
    raise v

  def build(self):
    cfg = self.cfg
    qlen = Int.MaxValue if cfg['queue'] is None else cfg['queue']
    top = TimeoutSinkProvider()
    pool_p = WatermarkPoolSink.Builder(min_watermark=cfg['min'], max_watermark=cfg['max'], max_queue_len=qlen)
    self.provider = ConnProvider(self)
    top.next_provider = pool_p
    pool_p.next_provider = self.provider
    self.top = top.CreateSink({SinkProperties.Label: 'svc', SinkProperties.Endpoint: EP})
    self.pool = self.top.next_sink
    ar = self.pool.Open()
    advance(0.05)
    if not ar.ready() or ar.exception:
      self.fail('open-failed', 'pool Open() did not succeed: %r' % (ar.exception if ar.ready() else 'pending'))

  # model queries
  def live_conns(self):
    return [c for c in self.provider.conns if c.closed_at is None]

  def live_waiters(self):
    return [r for r in self.reqs if r.queued and r.conn is None and not r.completions]

  def busy(self):
    n = 0
    for c in self.live_conns():
      if c.opening or c.active_req() is not None:
        n += 1
    return n

  def on_open_refused(self, conn):
    self.flags.add('open_refused')
    if len(self.live_conns()) != len([c for c in self.live_conns() if not c.opening]) or self.lent():
      self.flags.add('open_refused_while_others_busy_or_opening')
    for w in self.live_waiters():
      w.excused = True

  def on_reach(self, r):
    if r.queued:
      # FIFO: no earlier live waiter may still be waiting
      for o in self.reqs:
        if o.id < r.id and o.queued and o.conn is None and not o.completions:
          self.fail('not-fifo', 'queued request %d started before earlier waiter %d' % (r.id, o.id))

  def submit(self, timeout_ms):
    if self.pool.state == ChannelState.Closed:
      return
    qmax = self.cfg['queue']
    live_before = len(self.live_waiters())
    busy_before = self.busy()
    r = Req(len(self.reqs), None if timeout_ms is None else timeout_ms / 1000.0)
    nconn_before = len(self.provider.conns)
    self.reqs.append(r)
    msg = MethodCallMessage(None, 'm', (r.id,), {})
    msg.properties['__vf_req'] = r
    if r.deadline is not None:
      msg.properties[Deadline.KEY] = r.deadline
    st = ClientMessageSinkStack()
    st.Push(Terminal(), r)
    r.stack = st
    gevent.spawn(self.top.AsyncProcessRequest, st, msg, None, {})
    settle()
    self.raise_pending()
    saturated = busy_before >= self.cfg['max']
    if r.completions:
      err = r.completions[0][1].error
      if isinstance(err, MaxWaitersError):
        self.flags.add('max_waiters')
        full = qmax is not None and live_before >= qmax
        maybe_full = qmax is not None and live_before + self.expired_while_queued >= qmax
        if not saturated or not (full or maybe_full):
          self.fail('maxwaiters-spurious', 'request %d failed with MaxWaitersError with %d live waiters (limit %r), %d of %d connections busy' % (
              r.id, live_before, qmax, busy_before, self.cfg['max']))
      elif isinstance(err, OSError) and len(self.provider.conns) == nconn_before + 1 and self.provider.conns[-1].refused:
        pass       # the connection opened for it was refused
      else:
        self.fail('unexpected-completion', 'request %d completed at once with %r' % (r.id, err))
      return
    if r.conn is None:
      opening = [c for c in self.live_conns() if c.opening]
      if opening and not saturated:
        return     # waiting for its own fresh connection to open
      r.queued = True
      self.flags.add('queued')
      if not saturated:
        self.fail('queued-with-capacity', 'request %d waits although only %d of %d connections are busy' % (r.id, busy_before, self.cfg['max']))
      if qmax is not None and live_before >= qmax:
        self.fail('maxwaiters-not-immediate', 'request %d should have failed at once with MaxWaitersError (%d waiters, limit %d) but is %s' % (
            r.id, live_before, qmax, 'waiting'))

  def raise_pending(self):
    if self.failure is not None:
      raise self.failure

  def lent(self):
    out = []
    for c in self.provider.conns:
      r = c.active_req()
      if r is not None:
        out.append(r)
    return sorted(out, key=lambda r: r.id)

  def answer(self, r, kind):
    r.answered = True
    waiters = self.live_waiters()
    if r.conn.killed and waiters:
      self.flags.add('dead_on_release_with_waiters')
    if r.conn.killed:
      self.pool_closed_expected = True
      for w in waiters:
        w.expect_closed_error = True
    if self.expired_while_queued:
      self.flags.add('release_after_expiry_in_queue')
      if not r.conn.killed and self.pool.state != ChannelState.Closed:
        # the released connection goes to the first waiter still alive: the expired entries ahead of that waiter
        # (all of them, if nobody alive is waiting) have been passed over and no longer take up room in the queue
        live = [w.id for w in waiters]
        first = min(live) if live else None
        self.dead_in_queue = [d for d in self.dead_in_queue if first is not None and d > first]
        if not self.dead_in_queue:
          self.flags.add('release_cleared_expired_entries')
    m = MethodReturnMessage('ok') if kind == 'reply' else MethodReturnMessage(error=Exception('server error'))
    try:
      r.stack.AsyncProcessResponseMessage(m)
    except Violation:
      raise
    except Exception as e:
      self.fail('release-raised', 'delivering the answer of request %d (which hands its connection back to the pool) raised %r' % (r.id, e))

  def complete(self, i, kind):
    l = self.lent()
    if l:
      self.answer(l[i % len(l)], kind)

  def complete_die(self, i):
    l = [r for r in self.lent() if not r.conn.killed]
    if not l:
      return
    r = l[i % len(l)]
    c = r.conn
    if self.live_waiters():
      self.flags.add('connection_died_between_release_and_hand_off')
    self.answer(r, 'reply')
    if self.pool.state != ChannelState.Closed:
      c.killed = True
      c._state = ChannelState.Closed

  def open_again(self):
    # (only where connects are immediate: an Open() that is still connecting when the pool closes itself is another story)
    if self.pool.state == ChannelState.Closed or any(self.cfg['open_delay_ms']):
      return
    try:
      ar = self.pool.Open()
      settle()
    except Exception as e:
      self.fail('open-raised', 'Open() on the open pool raised %r' % (e,))
    if self.busy() >= self.cfg['max']:
      self.flags.add('open_again_while_saturated')

  def complete2(self, i, j):
    l = self.lent()
    if len(l) >= 2:
      a = l[i % len(l)]
      b = [x for x in l if x is not a][j % (len(l) - 1)]
      if len(self.live_waiters()) == 1:
        self.flags.add('two_releases_one_waiter')
      self.answer(a, 'reply')
      self.answer(b, 'reply')
    elif l:
      self.answer(l[0], 'reply')

  def kill(self, i, fault):
    conns = self.live_conns()
    if not conns:
      return
    c = conns[i % len(conns)]
    if c.opening:
      return
    c.killed = True
    c._state = ChannelState.Closed
    self.flags.add('kill_lent' if c.active_req() is not None else 'kill_idle')
    if fault:
      c.on_faulted.Set(Exception('conn died'))

  def note_expiries(self):
    for r in self.reqs:
      if r.expired() and r.queued and r.conn is None and not getattr(r, 'counted', False):
        r.counted = True
        self.dead_in_queue.append(r.id)
        self.flags.add('expired_while_queued')

  def invariants(self):
    self.raise_pending()
    self.note_expiries()
    cfg = self.cfg
    live = self.live_conns()
    if len(live) > cfg['max']:
      self.fail('too-many-connections', '%d connections in existence, max_watermark %d' % (len(live), cfg['max']))
    for r in self.reqs:
      if len(r.completions) > 1:
        self.fail('completed-twice', 'request %d completed %d times: %r' % (r.id, len(r.completions), [type(m.error).__name__ for _, m in r.completions]))
      if r.completions and r.deadline is None and isinstance(r.completions[0][1].error, TimeoutError):
        self.fail('timeout-without-deadline', 'request %d has no deadline but got TimeoutError' % r.id)
    closed = self.pool.state == ChannelState.Closed
    if self.pool_closed_expected:
      if not closed:
        self.fail('pool-not-closed', 'a dead connection was released but the pool is not closed')
      for r in self.reqs:
        if r.expect_closed_error:
          if not r.completions or not isinstance(r.completions[0][1].error, ServiceClosedError):
            self.fail('waiter-not-failed', 'waiter %d was not failed with ServiceClosedError when the pool closed (%r)' % (
                r.id, [type(m.error).__name__ for _, m in r.completions]))
    if not closed:
      waiters = [w for w in self.live_waiters() if not w.excused]
      if waiters and self.busy() < cfg['max']:
        self.fail('idle-capacity-with-waiters', 'requests %r wait while only %d of %d connections are busy (%d in existence)' % (
            [w.id for w in waiters], self.busy(), cfg['max'], len(live)))

  def finish(self):
    self.cur_op = ['finish']
    # answer everything that is lent, let every deadline pass
    idle_rounds = 0
    for _ in range(400):
      l = self.lent()
      if not l:
        idle_rounds += 1
        if idle_rounds > 12:      # 12 x 25 ms: every deadline (<= 200 ms) and open delay has passed
          break
      else:
        idle_rounds = 0
        self.step += 1
        self.answer(l[0], 'reply')
        settle()
      advance(0.025)
      self.invariants()
    advance(0.3)
    self.invariants()
    closed = self.pool.state == ChannelState.Closed
    for r in self.reqs:
      if not r.completions and not r.excused and not (closed and not r.expect_closed_error and r.conn is None):
        self.fail('never-completed', 'request %d (timeout %r, queued=%r, conn=%r) never completed' % (r.id, r.timeout, r.queued, r.conn))
    if closed:
      # a closed pool with nothing in flight keeps no connection open (cached, lent at the time, or being handed over)
      left = [c for c in self.provider.conns if c.closed_at is None and not c.killed and not c.refused]
      if left:
        self.fail('connection-open-after-pool-closed', 'the pool is closed and every request has completed, but %r %s still open' % (
            left, 'is' if len(left) == 1 else 'are'))
      # the pool closed itself; until its owner reacts it still takes requests.  When the owner then calls Close()
      # (as the resurrector does on the fault signal), whoever is waiting by then is failed like any other waiter
      self.cur_op = ['owner_close']
      self.cfg = dict(self.cfg, open_fails=[])
      n2 = len(self.reqs)
      for _ in range(self.cfg['max'] + 1):
        r = Req(len(self.reqs), None)
        self.reqs.append(r)
        msg = MethodCallMessage(None, 'm', (r.id,), {})
        msg.properties['__vf_req'] = r
        st = ClientMessageSinkStack()
        st.Push(Terminal(), r)
        r.stack = st
        gevent.spawn(self.top.AsyncProcessRequest, st, msg, None, {})
        settle()
      advance(0.2)
      waiting = [r for r in self.reqs[n2:] if r.conn is None and not r.completions]
      self.close_pool()
      settle()
      advance(0.01)
      self.raise_pending()
      for r in waiting:
        if len(r.completions) != 1 or not isinstance(r.completions[0][1].error, ServiceClosedError):
          self.fail('waiter-not-failed', 'request %d was waiting in the (already self-closed) pool when its owner called Close(): completions %r' % (
              r.id, [type(m.error).__name__ for _, m in r.completions]))
      if waiting:
        self.flags.add('waiter_failed_by_owner_close')
      if self.plan.get('close_with_lent'):
        # ... and the owner opens the same pool again
        if self.lent():
          self.flags.add('closed_with_requests_in_flight')
        self.second_life('a dead connection closed the pool, Close() and Open()')
      return
    live = self.live_conns()
    if len(live) > self.cfg['min']:
      self.fail('retained-above-min', '%d connections retained after traffic stopped, min_watermark %d' % (len(live), self.cfg['min']))
    # no capacity leaked: a burst of max requests all reach connections
    self.cur_op = ['burst']
    self.cfg = dict(self.cfg, open_fails=[])      # the endpoint accepts connections again
    n0 = len(self.reqs)
    for _ in range(self.cfg['max']):
      self.submit(None)
    advance(0.2)         # longer than the slowest connection open
    self.raise_pending()
    stuck = [r.id for r in self.reqs[n0:] if r.conn is None]
    if stuck:
      self.fail('capacity-leaked', 'after all traffic drained, a burst of %d requests left %r without a connection (%d connections in existence)' % (
          self.cfg['max'], stuck, len(self.live_conns())))
    # second life: the owner closes the pool and opens it again (a resurrector or balancer that is re-opened does);
    # the full capacity must be there again, and no more than that
    self.cur_op = ['reopen']
    if not self.plan.get('close_with_lent'):
      self.drain()
    elif self.lent():
      self.flags.add('closed_with_requests_in_flight')
    self.close_pool()
    settle()
    self.second_life('Close() and Open()')

  def close_pool(self):
    try:
      self.pool.Close()
    except Exception as e:
      self.fail('close-raised', 'pool Close() raised %r (%d expired entries may sit in its queue)' % (e, len(self.dead_in_queue)))

  def drain(self):
    for _ in range(50):       # a released connection may go straight to a request that was still queued: answer those too
      l = self.lent()
      if not l:
        break
      for r in l:
        self.answer(r, 'reply')
      settle()
      advance(0.01)

  def second_life(self, what):
    # requests that were in flight when the pool was closed complete now
    self.drain()
    # requests failed by Close() while queued are like requests that expired there: their entries may still take up
    # room in the queue until a release passes over them
    for r in self.reqs:
      if r.conn is None and r.completions and isinstance(r.completions[0][1].error, ServiceClosedError) and r.id not in self.dead_in_queue \
          and not getattr(r, 'counted', False):
        r.counted = True
        self.dead_in_queue.append(r.id)
    for c in self.provider.conns:
      if c.killed and c.closed_at is None:
        c.closed_at = loop.now()      # a connection that died is not a connection in existence, whether or not the pool called Close() on it
    for r in self.reqs:
      if not r.completions and r.conn is None:
        r.excused = True      # what happens to waiters at Close() is checked where the Close() is
    ar = self.pool.Open()
    advance(0.2)
    self.raise_pending()
    if not ar.ready() or ar.exception:
      self.fail('reopen-failed', 'pool Open() after %s did not succeed: %r' % (what, ar.exception if ar.ready() else 'pending'))
    self.flags.add('reopened')
    self.pool_closed_expected = False
    n1 = len(self.reqs)
    for _ in range(self.cfg['max']):
      self.submit(None)
    advance(0.2)
    self.raise_pending()
    stuck = [r.id for r in self.reqs[n1:] if r.conn is None]
    if stuck:
      self.fail('capacity-leaked-after-reopen', 'after %s a burst of %d requests left %r without a connection (%d connections in existence)' % (
          what, self.cfg['max'], stuck, len(self.live_conns())))
    # one more than the pool allows: it waits (or is turned away), it does not get a connection of its own
    self.submit(None)
    advance(0.2)
    self.invariants()
    extra = self.reqs[-1]
    if extra.conn is not None:
      self.fail('too-many-connections', 'after %s request %d reached %r while %d others are in flight, max_watermark %d' % (
          what, extra.id, extra.conn, self.cfg['max'], self.cfg['max']))
    self.drain()
    advance(0.3)
    self.invariants()
    live = self.live_conns()
    if len(live) > self.cfg['min']:
      self.fail('retained-above-min', '%d connections retained after traffic stopped in the pool\'s second life, min_watermark %d' % (
          len(live), self.cfg['min']))

def execute(plan):
  with World(seed=0):
    run = Run(plan)
    run.build()
    ops = list(plan['ops'])
    if plan.get('kill'):
      at, ci, fault = plan['kill']
      ops.insert(min(at, len(ops)), ['kill', ci, fault])
    for run.step, op in enumerate(ops):
      run.cur_op = op
      k = op[0]
      if k == 'submit':
        run.submit(op[1])
      elif k == 'complete':
        run.complete(op[1], op[2])
      elif k == 'complete2':
        run.complete2(op[1], op[2])
      elif k == 'complete_die':
        run.complete_die(op[1])
      elif k == 'open_again':
        run.open_again()
      elif k == 'advance':
        advance(op[1] / 1000.0)
      elif k == 'kill':
        run.kill(op[1], op[2])
      else:
        raise HarnessError(op)
      settle()
      run.invariants()
    run.finish()
    flags = run.flags
  nt = None
  if 'release_after_expiry_in_queue' in flags or 'two_releases_one_waiter' in flags:
    nt = sorted(flags)
  c = plan['config']
  return Outcome(nontrivial=nt, classes=sorted(flags) + ['queue=%s' % ('unbounded' if c['queue'] is None else 'bounded')])
