"""C20 - generated proxies and URI parsing are faithful for every interface."""
import collections
import keyword

from hypothesis import strategies as st

from vf.evidence import Outcome
from vf.gen import weighted
from vf.world import World, Violation, settle

from scales.asynchronous import AsyncResult
from scales.core import ClientProxyBuilder, ScalesUriParser, _ProxyBase
from scales.loadbalancer.serverset import StaticServerSetProvider, ZooKeeperServerSetProvider

ID = 'C20'
LEVEL = 'exploration'
RULE = ('Hypothesis-generated interface classes (1-6 own methods, optional base class contributing 1-3 inherited '
        'methods, names plain / _x / x_ / _x_ / mixed case, signatures positional / defaults / *args / **kwargs) with '
        '1-6 calls each (0-4 positional and 0-3 keyword arguments that are fresh objects, dispatcher answering pending / '
        'value / error), against a stub dispatcher; and URIs tcp://h:p[,h:p...] (1-8 endpoints), zk://hosts/path[#name], '
        'other schemes. Non-trivial = an inherited or underscore-decorated method called with both positional and keyword '
        'arguments, or a URI with >= 3 endpoints. distinct = distinct non-trivial plans.')
ASSUMPTIONS = [
    'interface classes have plain instance methods; no name starts or ends with "__", no pair m / m_async, no clash with the proxy base class',
    'tcp hosts are letters/digits/./- without IPv6 literals; ports 1-65535',
    'ZooKeeper hosts compared as a case-insensitive multiset (the Kazoo client shuffles and lower-cases them); no connection is made',
]
BUDGET = {
    'quick': {'examples': 1500},
    'thorough': {'examples': 4000, 'shards': 8},
}

_RESERVED = set(dir(_ProxyBase)) | set(keyword.kwlist) | {'self', 'None', 'True', 'False'}

SIGS = {
    'pos': 'def {n}(self, a, b): pass',
    'none': 'def {n}(self): pass',
    'defaults': 'def {n}(self, a=1, b=None): pass',
    'varargs': 'def {n}(self, *args): pass',
    'kwargs': 'def {n}(self, a, **kw): pass',
    'both': 'def {n}(self, *args, **kwargs): pass',
}


def _names():
  stem = st.text(alphabet='abcdefghijklmnopqrstuvwxyzABCDEFGHXYZ0123456789', min_size=1, max_size=8).filter(
      lambda s: not s[0].isdigit())
  deco = st.sampled_from(['{}', '_{}', '{}_', '_{}_', '{}'])
  mid = st.tuples(stem, st.sampled_from(['_', '_', '__', '___']), stem).map(lambda t: t[0] + t[1] + t[2])
  plain = st.tuples(weighted((2, stem), (1, mid)), deco).map(lambda t: t[1].format(t[0]))
  # what the Thrift compiler does with method names that are Python keywords, and other names with a meaning of their own
  special = st.sampled_from(['from_', 'in_', 'is_', 'pass_', 'class_', 'import_', 'lambda_', 'print_', 'exec_', 'None_', 'get', 'Get', 'close_', 'open'])
  return weighted((6, plain), (1, special)).filter(
      lambda n: n not in _RESERVED and not n.startswith('__') and not n.endswith('__')
      and not n.endswith('_async') and n.isidentifier())


def strategy(tier):
  meth = st.tuples(_names(), st.sampled_from(sorted(SIGS)), st.sampled_from([False, False, False, True, 'classmethod'])).map(list)
  call = st.fixed_dictionaries({
      'm': st.integers(0, 20), 'nargs': st.integers(0, 4), 'kw': st.lists(st.sampled_from(['a', 'b', 'x', 'timeout']), max_size=3, unique=True),
      'mode': st.sampled_from(['async_pending', 'async_ok', 'async_fail', 'sync_ok', 'sync_fail']),
      # which of two clients of the interface makes the call; what kind of error object a failing call carries
      'client': st.integers(0, 1), 'err': st.sampled_from(['boom', 'boom', 'quiet', 'empty']),
  })
  host = st.text(alphabet='abcdefghijklmnopqrstuvwxyzABC0123456789', min_size=1, max_size=10)
  dotted = st.lists(host, min_size=1, max_size=4).map('.'.join)
  hosts = st.one_of(dotted, st.tuples(host, host).map('-'.join),
                    st.tuples(*[st.integers(0, 255)] * 4).map(lambda t: '.'.join(map(str, t))))
  ep = st.tuples(hosts, st.integers(1, 65535)).map(list)
  seg = st.text(alphabet='abcdefghijklmnopqrstuvwxyz0123456789_-.', min_size=1, max_size=8)
  uri = st.one_of(
      st.fixed_dictionaries({'scheme': st.sampled_from(['tcp', 'tcp', 'TCP', 'Tcp']), 'eps': st.lists(ep, min_size=1, max_size=8)}),
      st.fixed_dictionaries({'scheme': st.sampled_from(['zk', 'ZK']), 'eps': st.lists(ep, min_size=1, max_size=4),
                             'path': st.lists(seg, min_size=1, max_size=4).map(lambda l: '/' + '/'.join(l)),
                             'frag': st.one_of(st.none(), seg)}),
      st.fixed_dictionaries({'scheme': st.sampled_from(['http', 'https', 'ftp', 'tcpx', 'zkk', 'udp', 'unix', 'thrift']),
                             'eps': st.lists(ep, min_size=1, max_size=3)}),
  )
  return st.fixed_dictionaries({
      'own': st.lists(meth, min_size=1, max_size=6, unique_by=lambda m: m[0]),
      'base': st.one_of(st.none(), st.lists(meth, min_size=1, max_size=3, unique_by=lambda m: m[0])),
      'override': st.booleans(),
      'base_first': st.booleans(),
      'twin': st.one_of(st.none(), st.lists(meth, min_size=1, max_size=3, unique_by=lambda m: m[0])),
      'calls': st.lists(call, min_size=1, max_size=6),
      'uri': uri,
  })


class _Disp(object):
  def __init__(self):
    self.calls = []
    self.next_result = None
    self.closed = 0

  def DispatchMethodCall(self, method, args, kwargs, timeout=None):
    self.calls.append((method, args, kwargs))
    return self.next_result

  def Open(self):
    return AsyncResult.Complete()

  def Close(self):
    self.closed += 1


def _mk_class(name, methods, bases):
  ns = {}
  for meth in methods:
    n, sig = meth[0], meth[1]
    d = {}
    exec(SIGS[sig].format(n=n), d)
    if len(meth) > 2 and meth[2] == 'classmethod':
      ns[n] = classmethod(d[n])        # looked up on the class it is a bound method, not a plain function
      continue
    if len(meth) > 2 and meth[2]:
      # what a decorator without functools.wraps leaves behind: the attribute is the method's name, not __name__
      d[n].__name__ = 'wrapper'
      d[n].__qualname__ = name + '.wrapper'
    ns[n] = d[n]
  ns['__module__'] = 'vf.generated.' + name
  return type(name, bases, ns)


class Boom(Exception):
  pass


class QuietBoom(Boom):
  # an error type that is falsy (an "empty" batch error, say): still an error
  def __bool__(self):
    return False


class EmptyBoom(Boom):
  def __len__(self):
    return 0


def _check_proxy(plan):
  base = plan['base']
  own = [list(m) for m in plan['own']]
  bases = (object,)
  inherited = []
  if base:
    Base = _mk_class('Base', base, (object,))
    bases = (Base,)
    inherited = [m[0] for m in base]
    if plan['override']:
      own.append([base[0][0], 'both'])     # an own method overriding an inherited one
  Iface = _mk_class('Iface', own, bases)
  names = sorted(set([m[0] for m in own] + inherited))
  # generated-pair precondition: no m / m_async clash
  if any(n + '_async' in names for n in names):
    return None
  if base and plan.get('base_first'):
    # a client for the base interface is built first in this process (service B extends A, both in use)
    base_cls = ClientProxyBuilder.CreateServiceClient(Base)
    if not issubclass(base_cls, Base):
      raise Violation(ID, 'proxy-not-instance', 'client class of the base interface does not derive from it')
  proxy_cls = ClientProxyBuilder.CreateServiceClient(Iface)
  if ClientProxyBuilder.CreateServiceClient(Iface) is not proxy_cls:
    raise Violation(ID, 'proxy-cache', 'CreateServiceClient returned different classes for one interface')
  disp = _Disp()
  proxy = proxy_cls(disp)
  # a second client of the same interface with its own dispatcher (two clusters of one service)
  disp2 = _Disp()
  proxy2 = proxy_cls(disp2)
  if not isinstance(proxy, Iface):
    raise Violation(ID, 'proxy-not-instance', 'proxy is not an instance of the interface')
  for n in names:
    for form in (n, n + '_async'):
      if not callable(getattr(proxy, form, None)):
        raise Violation(ID, 'proxy-missing-method', 'proxy lacks %r' % form)
      if getattr(proxy_cls, form) is getattr(Iface, form, None):
        raise Violation(ID, 'proxy-missing-method', '%r is not intercepted' % form)
  nontrivial = False
  proxy1, disp1 = proxy, disp
  for c in plan['calls']:
    n = names[c['m'] % len(names)]
    args = tuple(object() for _ in range(c['nargs']))
    kwargs = dict((k, object()) for k in c['kw'])
    ar = AsyncResult()
    value, err = object(), {'quiet': QuietBoom, 'empty': EmptyBoom}.get(c.get('err'), Boom)('planned')
    mode = c['mode']
    proxy, disp, other = (proxy2, disp2, disp1) if c.get('client') else (proxy1, disp1, disp2)
    other_before = len(other.calls)
    if mode.endswith('_ok'):
      ar.set(value)
    elif mode.endswith('_fail'):
      ar.set_exception(err)
    disp.next_result = ar
    before = len(disp.calls)
    if mode.startswith('async'):
      try:
        got = getattr(proxy, n + '_async')(*args, **kwargs)
      except Exception as e:
        # the stub dispatcher accepts any call: whatever is raised here comes from the proxy itself
        raise Violation(ID, 'proxy-raised', '%s_async(%d positional, keywords %r) raised %r before reaching the dispatcher' % (n, len(args), sorted(kwargs), e))
      if got is not ar:
        raise Violation(ID, 'async-result', '%s_async returned %r, not the dispatcher\'s pending result' % (n, got))
    else:
      try:
        got = getattr(proxy, n)(*args, **kwargs)
        if mode == 'sync_fail':
          raise Violation(ID, 'sync-no-raise', '%s returned %r although the call failed' % (n, got))
        if got is not value:
          raise Violation(ID, 'sync-value', '%s returned %r, not the call\'s value' % (n, got))
      except Boom as e:
        if mode != 'sync_fail' or e is not err:
          raise Violation(ID, 'sync-raise', '%s raised %r unexpectedly' % (n, e))
      except Violation:
        raise
      except Exception as e:
        raise Violation(ID, 'proxy-raised', '%s(%d positional, keywords %r) raised %r' % (n, len(args), sorted(kwargs), e))
    if len(other.calls) != other_before:
      raise Violation(ID, 'wrong-dispatcher', '%s called through one client reached the dispatcher of another client of the same interface' % n)
    if len(disp.calls) != before + 1:
      raise Violation(ID, 'dispatch-count', '%s: dispatcher saw %d calls' % (n, len(disp.calls) - before))
    m, a, k = disp.calls[-1]
    if m != n:
      raise Violation(ID, 'method-name', 'called %r, dispatcher saw %r' % (n, m))
    if len(a) != len(args) or any(x is not y for x, y in zip(a, args)):
      raise Violation(ID, 'args-changed', '%s: positional arguments changed' % n)
    if set(k) != set(kwargs) or any(k[x] is not kwargs[x] for x in kwargs):
      raise Violation(ID, 'kwargs-changed', '%s: keyword arguments changed' % n)
    decorated = n.startswith('_') or n.endswith('_') or (n in inherited)
    if decorated and args and kwargs:
      nontrivial = True
  # a second, different interface class with the very same module and class name (generated code, reloads)
  twin = plan.get('twin')
  if twin:
    Twin = _mk_class('Iface', [list(m) for m in twin], (object,))
    tnames = sorted(m[0] for m in twin)
    if not any(n + '_async' in tnames for n in tnames):
      tcls = ClientProxyBuilder.CreateServiceClient(Twin)
      tdisp = _Disp()
      tproxy = tcls(tdisp)
      if not isinstance(tproxy, Twin):
        raise Violation(ID, 'proxy-not-instance', 'the client built for a second interface class (same module and name as the first) is not an instance of it')
      for n in tnames:
        for form in (n, n + '_async'):
          if not callable(getattr(tproxy, form, None)) or getattr(tcls, form) is getattr(Twin, form, None):
            raise Violation(ID, 'proxy-missing-method', 'client of the second interface class lacks / does not intercept %r' % form)
      ar = AsyncResult()
      tdisp.next_result = ar
      if getattr(tproxy, tnames[0] + '_async')() is not ar or tdisp.calls[-1][0] != tnames[0]:
        raise Violation(ID, 'method-name', 'second interface: %s_async was not dispatched as %r' % (tnames[0], tnames[0]))
  return nontrivial


def _check_uri(plan):
  u = plan['uri']
  netloc = ','.join('%s:%d' % (h, p) for h, p in u['eps'])
  scheme = u['scheme']
  parser = ScalesUriParser()
  # an application's own parser lives in the same process: a subclass with its own tcp handling, and a scheme
  # registered on that one instance; the default parser made before it answers as if it were alone
  class _OwnParser(ScalesUriParser):
    def _HandleTcp(self, uri_):
      return StaticServerSetProvider([])
  own = _OwnParser()
  own.handlers['own'] = own._HandleTcp
  try:
    leaked = parser.Parse('own://h:1')
  except Exception:
    leaked = None
  if leaked is not None:
    raise Violation(ID, 'uri-scheme-accepted', "'own://h:1' accepted by a default parser after another parser object registered that scheme: %r" % (leaked,))
  if scheme.lower() == 'tcp':
    uri = '%s://%s' % (scheme, netloc)
    try:
      prov = parser.Parse(uri)
    except Exception as e:
      raise Violation(ID, 'uri-tcp-rejected', '%r rejected: %r' % (uri, e))
    if not isinstance(prov, StaticServerSetProvider):
      raise Violation(ID, 'uri-tcp-provider', '%r gave %r' % (uri, prov))
    prov.Initialize(None, None)
    got = [(s.service_endpoint.host, s.service_endpoint.port) for s in prov.GetServers()]
    want = [(h, p) for h, p in u['eps']]
    if got != want:
      raise Violation(ID, 'uri-tcp-endpoints', '%r parsed to %r' % (uri, got))
    for again in (2, 3):
      prov.Initialize(None, None)
      got_n = [(s.service_endpoint.host, s.service_endpoint.port) for s in prov.GetServers()]
      if got_n != want:
        raise Violation(ID, 'uri-tcp-endpoints', '%r: read no. %d of the provider gave %r' % (uri, again, got_n))
    for host, port in got:
      if not isinstance(port, int):
        raise Violation(ID, 'uri-tcp-endpoints', 'port %r is not an int' % (port,))
  elif scheme.lower() == 'zk':
    uri = '%s://%s%s' % (scheme, netloc, u['path'])
    if u['frag'] is not None:
      uri += '#' + u['frag']
    try:
      prov = parser.Parse(uri)
    except Exception as e:
      raise Violation(ID, 'uri-zk-rejected', '%r rejected: %r' % (uri, e))
    if not isinstance(prov, ZooKeeperServerSetProvider):
      raise Violation(ID, 'uri-zk-provider', '%r gave %r' % (uri, prov))
    if prov._zk_path != u['path']:
      raise Violation(ID, 'uri-zk-path', '%r: path %r' % (uri, prov._zk_path))
    if prov.endpoint_name != u['frag']:
      raise Violation(ID, 'uri-zk-endpoint-name', '%r: endpoint name %r' % (uri, prov.endpoint_name))
    hosts = collections.Counter((h.lower(), p) for h, p in prov._zk_client.hosts)
    want = collections.Counter((h.lower(), p) for h, p in u['eps'])
    if hosts != want:
      raise Violation(ID, 'uri-zk-hosts', '%r: hosts %r' % (uri, sorted(hosts)))
  else:
    uri = '%s://%s' % (scheme, netloc)
    try:
      prov = parser.Parse(uri)
    except Exception:
      return False
    raise Violation(ID, 'uri-scheme-accepted', '%r accepted: %r' % (uri, prov))
  return len(u['eps']) >= 3


def execute(plan):
  with World(seed=0):
    nt = []
    r = _check_proxy(plan)
    if r:
      nt.append('decorated/inherited method with args and kwargs')
    if _check_uri(plan):
      nt.append('uri with >= 3 endpoints')
    settle()
  return Outcome(nontrivial=nt or None,
                 classes=['scheme=' + plan['uri']['scheme'].lower(), 'base' if plan['base'] else 'nobase'] +
                 (['skipped-async-pair'] if r is None else []))
