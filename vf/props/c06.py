"""C06 - aperture keeps a partitioned, bounded, load-tracking active subset."""
from hypothesis import strategies as st

from vf.evidence import Outcome
from vf.world import World, settle, advance
from vf.lbharness import LBRun
from vf.gen import sized_list, weighted

ID = 'C06'
LEVEL = 'exploration'
RULE = ('Hypothesis-generated configurations (min_size 1-3, max_size up to 8, min_load in {0.2,0.5,1.0}, max_load >= 2.5 x '
        'min_load, 1-9 members, jitter disabled or every 2-6 s) and histories (<= 40 ops) of dispatch / complete / down / up / '
        'join / leave / advance(up to 40 s) / wall clock stepping back 1-30 s / steady(c in 1-12 closed-loop callers, 1-5 requests per second each, 35-60 '
        'virtual seconds) against the real ApertureBalancerSink on the virtual clock. Every _AdjustAperture / contraction '
        'is observed: partition + gauges after every step, contraction floor, load-driven growth cap, direction of every '
        'size change given the published load average, the published smoothed load within the range of the totals of the last 30 s (+ e^-6 of the all-time range) at every event, tracking of the smoothed load after 30 s of steady traffic, and '
        'settling of the size in the last 10 s of a phase when a stable size exists. Non-trivial = the aperture both '
        'expanded and contracted because of load, or a jitter round contracted it with traffic in flight. distinct = '
        'distinct non-trivial plans.')
ASSUMPTIONS = [
    'channels open successfully (failures are injected between, not inside, aperture adjustments)',
    'tracking band is [c-1-0.1, c+1+0.1]: the EMA credits elapsed time to the post-event sample, the statement says smoothed, not unbiased',
    'settling is only demanded when a stable size exists with an 8% margin on both thresholds',
    'liveness checked as bounded-time safety on the virtual clock',
]
BUDGET = {
    'quick': {'examples': 300, 'seconds': 90},
    'thorough': {'examples': 700, 'shards': 16},
}


def strategy(tier):
  aperture = st.fixed_dictionaries({
      'min_size': st.integers(1, 3), 'max_size': st.integers(1, 8),
      'min_load': st.sampled_from([0.2, 0.5, 1.0]), 'max_load': st.sampled_from([1.0, 2.0, 2.5, 4.0]),
      'jitter': st.sampled_from([0, 0, 2, 4]),
  }).map(lambda a: dict(a, max_size=max(a['max_size'], a['min_size']), max_load=max(a['max_load'], 2.5 * a['min_load']),
                        jitter_min=a['jitter'], jitter_max=a['jitter'] + 2 if a['jitter'] else 0))
  cfg = st.fixed_dictionaries({
      'balancer': st.just('aperture'),
      'seed': st.integers(0, 2 ** 20),
      'initial': st.one_of(st.lists(st.integers(0, 8), min_size=4, max_size=9, unique=True),
                           st.lists(st.integers(0, 8), min_size=1, max_size=9, unique=True)),
      'open_delay_ms': st.sampled_from([[0], [0], [0, 1], [2], [50], [0, 300], [300]]),
      'open_fail': st.just([False]),
      'sync_fail': st.just(False),
      'aperture': aperture,
  })
  pairs = [
      (5, st.just(['dispatch'])),
      (3, st.tuples(st.just('complete'), st.integers(0, 40), st.sampled_from(['reply', 'error'])).map(list)),
      (1, st.tuples(st.just('down'), st.integers(0, 8), st.booleans()).map(list)),
      (1, st.tuples(st.just('up'), st.integers(0, 8)).map(list)),
      (1, st.tuples(st.just('join'), st.integers(0, 8)).map(list)),
      (1, st.tuples(st.just('leave'), st.integers(0, 8)).map(list)),
      (2, st.tuples(st.just('advance'), st.sampled_from([10, 500, 2000, 5000, 20000, 40000])).map(list)),
      (1, st.tuples(st.just('clock_back'), st.sampled_from([1, 10, 30])).map(list)),
      (1, st.tuples(st.just('leave_in_jitter'), st.integers(0, 8)).map(list)),
      (3, st.tuples(st.just('steady'), st.integers(1, 12), st.sampled_from([1, 2, 5]), st.sampled_from([35, 40, 60])).map(list)),
  ]
  return st.fixed_dictionaries({'config': cfg, 'ops': sized_list(weighted(*pairs), 0, 40 if tier == 'quick' else 70)})


def execute(plan):
  ops = plan['ops']
  # bound the cost of one case: at most 4 steady phases
  seen = 0
  kept = []
  for op in ops:
    if op[0] == 'steady':
      seen += 1
      if seen > 4:
        continue
    kept.append(op)
  plan = dict(plan, ops=kept)
  with World(seed=plan['config']['seed']) as w:
    run = LBRun(plan, ID)
    run.build(w)
    settle()
    advance(0.02)
    run.run_ops()
    flags = run.flags
  nt = None
  if ('load_expand' in flags and 'load_contract' in flags) or 'jitter_contract' in flags:
    nt = sorted(flags)
  return Outcome(nontrivial=nt, classes=sorted(flags))
