"""World-plan executor: complete client stacks built by the public builders on
the virtual clock and the simulated network (DESIGN.md appendix A).

run_world(plan) -> Trace with per-call completion records, the network log and
what every simulated server decoded.  The property modules apply their oracles
to the Trace.
"""
import math

import gevent
from gevent.queue import Queue

from vf.boot import loop
from vf.world import World, HarnessError, ApiRaised, settle, advance, run_until
from vf.simnet import SimNet, Server
from vf.peers.thrift_serial import ThriftSerialPeer
from vf.peers.mux import MuxPeer
from vf.codecs import mux_ref as M
from vf.fixtures.richsvc import Rich

from scales.constants import SinkRole
from scales.core import ScalesUriParser
from scales.loadbalancer.heap import HeapBalancerSink
from scales.loadbalancer.serverset import ServerSetProvider
from scales.message import TimeoutError as ScalesTimeout
from scales.pool.watermark import WatermarkPoolSink
from scales.resurrector import ResurrectorSink
from scales.thrift.builder import Thrift
from scales.thriftmux.builder import ThriftMux

from test.scales.thrift.gen_py.hello import Hello

HOST = '127.0.0.1'


def ceil10ms(t):
  return math.ceil(round(t * 100.0, 6)) / 100.0


class DynamicServerSet(ServerSetProvider):
  """Harness provider with a single serial notifier greenlet."""

  def __init__(self, initial):
    self.members = list(initial)
    self.on_join = self.on_leave = None
    self.q = Queue()
    self.g = None

  def Initialize(self, on_join, on_leave):
    self.on_join, self.on_leave = on_join, on_leave
    if self.g is None:
      self.g = gevent.spawn(self._run)

  def _run(self):
    while True:
      kind, port = self.q.get()
      srv = ScalesUriParser.Server(ScalesUriParser.Endpoint(HOST, port))
      (self.on_join if kind == 'join' else self.on_leave)(srv)

  def GetServers(self):
    return [ScalesUriParser.Server(ScalesUriParser.Endpoint(HOST, p)) for p in self.members]

  def Close(self):
    pass

  def event(self, kind, port):
    if kind == 'join' and port not in self.members:
      self.members.append(port)
    elif kind == 'leave' and port in self.members:
      self.members.remove(port)
    if self.on_join is not None:
      self.q.put((kind, port))


class CallRec(object):
  def __init__(self, cid, spec):
    self.id = cid
    self.spec = spec
    self.method = spec['method']
    self.arg = spec['arg']
    self.timeout = None
    self.issued_at = None
    self.ar = None
    self.first = None          # (time, kind, payload, net_seq)
    self.first_snapshot = None
    self.issue_error = None
    self.before_open = False

  def outcome(self):
    return self.first[1] if self.first else None


def classify(ar):
  """The completion as a caller sees it (ar.get()), not just the .exception attribute:
  gevent lets a later set() / set_exception() leave the two views inconsistent."""
  try:
    v = ar.get(block=False)
  except ScalesTimeout as ex:
    return 'timeout', ex
  except BaseException as ex:
    return 'error', ex
  return 'value', v


def snapshot(ar):
  """Everything a holder of the result can observe; must not change after the first completion."""
  k, v = classify(ar)
  ex = ar.exception
  return (k, repr(v) if k == 'value' else '%s:%s' % (type(v).__name__, v),
          None if ex is None else '%s:%s' % (type(ex).__name__, ex), repr(ar.value))


class Trace(object):
  pass


def echo(port, method, arg):
  return '%d|%s|%s' % (port, method, arg)


def _respond_factory(port, srv_plan):
  def respond(method, args):
    a = args[0] if args else ''
    if method == 'put':
      it = a
      return Rich.Item(name=echo(port, method, it.name), count=it.count)
    if method == 'names':
      return [echo(port, method, a)]
    if isinstance(a, str) and a.startswith('!e1:'):
      raise Rich.E1(echo(port, method, a))
    if isinstance(a, str) and a.startswith('!app:'):
      raise RuntimeError('handler failure')
    return echo(port, method, a)
  return respond


def _close(client, tr):
  # closing a client is always a valid call: an exception out of it is reported for whichever property is being checked
  try:
    client.DispatcherClose()
  except Exception as e:
    if getattr(tr, 'close_error', None) is None:
      tr.close_error = e


def run_world(plan, world=None):
  tr = Trace()
  tr.plan = plan
  net = SimNet()
  net.install()
  net.send_max = plan.get('send_max')      # most bytes one send() call accepts (sendall is unaffected)
  tr.net = net
  stack = plan['stack']
  iface_name = plan.get('iface', 'hello')
  iface, pf = (Hello.Iface, Hello.Processor) if iface_name == 'hello' else (Rich.Iface, Rich.Processor)
  T = plan['timeout_ms'] / 1000.0
  tr.peers = {}
  tr.servers = {}
  chunk_plan = {}
  for port_s, sp in plan['servers'].items():
    port = int(port_s)
    reqs = sp.get('requests') or []
    default = sp.get('default_request', ['reply', 1])

    def script_serial(k, method, args, reqs=reqs, default=default):
      a = reqs[k] if k < len(reqs) else default
      return [a[0]] + [x / 1000.0 if isinstance(x, (int, float)) else x for x in a[1:2]] + list(a[2:])

    def script_mux(k, frame, method, args, reqs=reqs, default=default):
      a = reqs[k] if k < len(reqs) else default
      return [a[0]] + [x / 1000.0 if isinstance(x, (int, float)) else x for x in a[1:2]] + list(a[2:])

    respond = _respond_factory(port, sp)
    if stack == 'thrift':
      peer = ThriftSerialPeer(pf, respond, script_serial)
    else:
      pings = sp.get('pings')
      ping = None
      if pings is not None:
        ping = lambda k, pings=pings: (['pong', 0.0005] if (k >= len(pings) or pings[k]) else ['ignore'])
      peer = MuxPeer(pf, respond, script_mux, ping=ping,
                     reply_contexts=((b'k', b'v'), (b'', b'\xe2\x82\xac')) if plan.get('reply_contexts') else ())
    cs = [[c[0]] + [x / 1000.0 for x in c[1:]] for c in (sp.get('connect') or [])]
    srv = Server(net, (HOST, port), peer, cs)
    if sp.get('connect_default'):
      c = sp['connect_default']
      srv.default_connect = [c[0]] + [x / 1000.0 for x in c[1:]]
    if sp.get('initially_down'):
      srv.up = False
    if sp.get('refuse_delay_ms'):
      srv.down_refuse_delay = sp['refuse_delay_ms'] / 1000.0
    tr.peers[port] = peer
    tr.servers[port] = srv
    if sp.get('chunks'):
      chunk_plan[port] = sp['chunks']
  if chunk_plan:
    cnt = {'i': 0}

    def chunker(sock, avail, want):
      ch = chunk_plan.get(sock.addr[1]) if sock.addr else None
      if not ch:
        return avail
      cnt['i'] += 1
      return ch[cnt['i'] % len(ch)]
    net.chunker = chunker
  seg_plan = dict((int(p_), sp_['segments']) for p_, sp_ in plan['servers'].items() if sp_.get('segments'))
  if seg_plan:
    # replies arrive as several segments 1 ms apart (sizes of the first ones given, the rest follows)
    def trickle(sock, data):
      seg = seg_plan.get(sock.addr[1]) if sock.addr else None
      if not seg:
        return None
      out, pos = [], 0
      for k in seg:
        if pos + k >= len(data):
          break
        out.append((0.001 if out else 0.0, data[pos:pos + k]))
        pos += k
      out.append((0.001 if out else 0.0, data[pos:]))
      return out
    net.trickle = trickle
  stalls = dict((int(p_), sp_['stall']) for p_, sp_ in plan['servers'].items() if sp_.get('stall'))
  if stalls:
    def stall_fn(sock, data, idx):
      st_ = stalls.get(sock.addr[1]) if sock.addr else None
      if st_ and sock.nth == st_.get('conn', 0) and idx == st_['send_index'] and len(data) > st_['cut'] + 1:
        return (len(data) - st_['cut'], st_['for_ms'] / 1000.0)
      return None
    net.stall = stall_fn
  gate = plan.get('gate')
  tr.gate_evt = None
  if gate:
    # hold the first frame the client writes at/after gate['from_ms'] that is a ping or belongs to a
    # call without a deadline inside the run (DESIGN.md 7.2), until gate['until_ms']
    from gevent.event import Event
    tr.gate_evt = Event()
    st = {'armed': False, 'used': False}

    def gate_fn(sock, buf):
      if not st['armed'] or st['used'] or stack != 'thriftmux':
        return None
      try:
        d = M.decode_frame(bytes(buf[4:]))
      except Exception:
        return None
      if d['type'] == M.T_PING or (d['type'] == M.T_DISPATCH and b'nodeadline' in d['payload']):
        st['used'] = True
        return tr.gate_evt
      return None
    net.gate = gate_fn
    tr.gate_state = st

  # --- client
  floor = plan.get('tag_state')
  if floor:
    # a long-lived connection: the tag counter of every mux connection of this client starts at a high-water mark
    import scales.mux.sink as _muxsink
    orig_init = _muxsink.TagPool.__init__

    def _init(self, *a, **k):
      orig_init(self, *a, **k)
      self._next = max(self._next, floor[0])
      self._set.update(floor[1])      # low tags that were answered and returned; the others were abandoned in transit
    _muxsink.TagPool.__init__ = _init
    World.current.cleanups.append(lambda: setattr(_muxsink.TagPool, '__init__', orig_init))
  ss = plan['serverset']
  if stack == 'thrift':
    b = Thrift.NewBuilder(iface)
  else:
    b = ThriftMux.NewBuilder(iface, client_id=plan.get('client_id'))
  dyn = None
  if ss['kind'] == 'uri':
    b = b.SetUri('tcp://' + ','.join('%s:%d' % (HOST, p) for p in ss['initial']))
  else:
    dyn = DynamicServerSet(ss['initial'])
    b = b.SetServerSetProvider(dyn)
  tr.dyn = dyn
  if plan.get('balancer') == 'heap':
    b = b.ReplaceRole(SinkRole.LoadBalancer, HeapBalancerSink.Builder())
  elif plan.get('balancer') == 'aperture':
    # the default balancer with explicit settings (e.g. jitter every 1-2 s instead of every 2-4 minutes)
    from scales.loadbalancer.aperture import ApertureBalancerSink
    b = b.ReplaceRole(SinkRole.LoadBalancer, ApertureBalancerSink.Builder(**plan.get('aperture', {})))
  pool = plan.get('pool')
  if pool and stack == 'thrift':
    kw = {}
    if pool.get('max') is not None:
      kw['max_watermark'] = pool['max']
    if pool.get('min') is not None:
      kw['min_watermark'] = pool['min']
    if pool.get('queue') is not None:
      kw['max_queue_len'] = pool['queue']
    b = b.ReplaceRole(SinkRole.Pool, WatermarkPoolSink.Builder(**kw))
  res = plan.get('resurrector')
  if res:
    b = b.ReplaceSink(ResurrectorSink.Builder, ResurrectorSink.Builder(
        initial_wait_interval=res[0], max_wait_interval=res[1], backoff_exponent=res[2]))
  b = b.SetTimeout(T).SetOpenTimeout(0)
  t0 = loop.now()
  tr.t0 = t0
  client = b.Build()
  tr.client = client
  open_ar = client._dispatcher._open_ar
  tr.open_ar = open_ar
  tr.open_done_at = None
  if open_ar.ready():
    tr.open_done_at = loop.now()
  else:
    open_ar.rawlink(lambda a: setattr(tr, 'open_done_at', loop.now()))

  # --- timed actions
  actions = []
  for port_s, sp in plan['servers'].items():
    for t, what in sp.get('timeline') or []:
      actions.append((t, 1, ('server', int(port_s), what)))
  for t, kind, port in ss.get('events') or []:
    actions.append((t, 2, ('ss', kind, port)))
  calls = []
  for i, c in enumerate(plan['calls']):
    rec = CallRec(i, c)
    calls.append(rec)
    actions.append((c['at'], 3, ('call', rec)))
  if gate:
    actions.append((gate['from_ms'], 0, ('gate_arm',)))
    actions.append((gate['until_ms'], 0, ('gate_release',)))
  close_at = plan.get('close_at')
  if close_at is not None:
    actions.append((close_at, 4, ('close',)))
  actions.sort(key=lambda a: (a[0], a[1]))
  tr.calls = calls
  tr.closed_at = None
  tr.close_seq = None

  st_e = {'n': 0}

  def issue(rec):
    rec.issued_at = loop.now()
    rec.before_open = not open_ar.ready()
    tmo = rec.spec.get('timeout_ms')
    rec.timeout = T if tmo is None else tmo / 1000.0
    arg = rec.arg
    if rec.method == 'put':
      arg = Rich.Item(name=rec.arg, count=rec.id)
    elif rec.method == 'names':
      arg = rec.spec.get('n', rec.id)
    try:
      if tmo is None and not rec.spec.get('via_dispatcher'):
        rec.ar = getattr(client, rec.method + '_async')(arg)
      else:
        rec.ar = client._dispatcher.DispatchMethodCall(rec.method, (arg,), {}, timeout=rec.timeout)
    except Exception as e:
      rec.issue_error = e
      return

    def done(a, rec=rec):
      if rec.first is None:
        k, v = classify(a)
        rec.first = (loop.now(), k, v, net.seq)
        rec.first_snapshot = snapshot(a)
        coe = plan.get('close_on_error')
        if coe and k == 'error' and tr.closed_at is None and getattr(tr, 'base', None) is not None:
          st_e['n'] += 1
          if st_e['n'] == coe['nth']:
            # the application closes the client in the handler of the failed call, i.e. the moment the caller is woken
            _close(client, tr)
            tr.closed_at = loop.now()
            tr.close_seq = net.seq
            tr.closed_on_error = True
    rec.ar.rawlink(done)

  coc = plan.get('close_on_connect')
  if coc:
    st_c = {'n': 0}

    def on_connect(sock):
      if tr.closed_at is not None or getattr(tr, 'base', None) is None:
        return
      st_c['n'] += 1
      if st_c['n'] == coc['nth']:
        def closer():
          gevent.sleep(coc['delay_ms'] / 1000.0)
          if tr.closed_at is None:
            _close(client, tr)
            tr.closed_at = loop.now()
            tr.close_seq = net.seq
            tr.closed_during_connect = True
        gevent.spawn(closer)
    net.on_connect = on_connect

  if plan.get('wait_open', True):
    # let the client finish opening (bounded) before the timeline starts
    for _ in range(400):
      if open_ar.ready():
        break
      advance(0.005)
    settle()
  base = loop.now()
  tr.base = base
  for t_ms, _, act in actions:
    run_until(base + t_ms / 1000.0)
    k = act[0]
    if k == 'server':
      srv = tr.servers[act[1]]
      what = act[2]
      if what == 'down':
        srv.set_down(reset=True)
      elif what == 'up':
        srv.blackhole = None
        srv.set_up()
      elif isinstance(what, list) and what[0] == 'flaky':
        tr.peers[act[1]].drop_after_next_pong = what[1]
      elif isinstance(what, list) and what[0] == 'blackhole':
        srv.set_down(reset=True)
        srv.blackhole = what[1]
      elif what == 'kill':
        for c in srv.live():
          c.deliver_reset()
      elif what == 'close':
        for c in srv.live():
          c.deliver_eof()
      elif what in ('silent', 'hang'):
        if what == 'hang':
          srv.set_down(reset=False)      # the process hangs: established connections stay, answers stop, new connects are refused
        p = tr.peers[act[1]]
        if not hasattr(p, '_orig'):
          p._orig = (p.script, getattr(p, 'ping', None))
        p.script = (lambda *a: ['never'])
        if hasattr(p, 'ping'):
          p.ping = lambda k: ['ignore']
      elif what in ('unsilent', 'unhang'):
        if what == 'unhang':
          srv.set_up()
        p = tr.peers[act[1]]
        if hasattr(p, '_orig'):
          p.script = p._orig[0]
          if p._orig[1] is not None:
            p.ping = p._orig[1]
          del p._orig
      else:
        raise HarnessError(what)
    elif k == 'ss':
      if dyn is not None:
        dyn.event(act[1], act[2])
    elif k == 'call':
      if tr.closed_at is None:
        issue(act[1])
    elif k == 'gate_arm':
      tr.gate_state['armed'] = True
    elif k == 'gate_release':
      tr.gate_state['armed'] = False
      tr.gate_evt.set()
    elif k == 'close':
      if tr.closed_at is None:
        _close(client, tr)
        tr.closed_at = loop.now()
        settle()
        tr.close_seq = net.seq
  end = base + plan['run_ms'] / 1000.0
  run_until(end)
  if tr.gate_evt is not None:
    tr.gate_evt.set()
  settle()
  tr.end = loop.now()
  # final snapshot: a late reply, fault or timer must not have changed anything
  tr.final = {}
  tr.final_snapshot = {}
  for rec in calls:
    if rec.ar is not None and rec.ar.ready():
      tr.final[rec.id] = classify(rec.ar)
      tr.final_snapshot[rec.id] = snapshot(rec.ar)
  if tr.closed_at is None:
    try:
      client.DispatcherClose()
    except Exception:
      pass
  settle()
  if getattr(tr, 'close_error', None) is not None:
    raise ApiRaised('DispatcherClose() raised %r' % (tr.close_error,))
  return tr


def same_outcome(a, b):
  """(kind, payload) pairs describe the same completion."""
  if a[0] != b[0]:
    return False
  if a[0] == 'value':
    return a[1] == b[1]
  return type(a[1]) is type(b[1]) and str(a[1]) == str(b[1])
