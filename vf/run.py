"""One CLI for every check (DESIGN.md 2.4).

  /venv/bin/python -m vf.run <ID> --tier quick|thorough [--replay file]

exit 0: the property held on everything explored (KNOWN-FINDING lines allowed)
exit 1: a violation was found; stdout has "VIOLATION property=<ID> replay=<path>"
exit 2: harness error (never a VIOLATION line)
"""
import argparse
import importlib
import json
import os
import subprocess
import sys
import time
import traceback


def _reexec_if_needed():
  if os.environ.get('PYTHONHASHSEED') != '0':
    env = dict(os.environ)
    env['PYTHONHASHSEED'] = '0'
    here = os.path.dirname(os.path.dirname(os.path.abspath(__file__)))
    env['PYTHONPATH'] = here + (os.pathsep + env['PYTHONPATH'] if env.get('PYTHONPATH') else '')
    os.execve(sys.executable, [sys.executable, '-m', 'vf.run'] + sys.argv[1:], env)


def _args():
  ap = argparse.ArgumentParser()
  ap.add_argument('prop')
  ap.add_argument('--tier', default=os.environ.get('VERIF_TIER', 'quick'),
                  choices=['quick', 'thorough'])
  ap.add_argument('--replay')
  ap.add_argument('--shard', default=None, help='k/n (internal)')
  ap.add_argument('--partial-out', default=None, help='(internal)')
  ap.add_argument('--examples', type=int, default=None)
  ap.add_argument('--shards', type=int, default=None)
  ap.add_argument('--no-shrink', action='store_true')
  return ap.parse_args()


def _seed():
  try:
    return int(os.environ.get('VERIF_SEED', '1'))
  except ValueError:
    return 1


def _wrap_spin(mod):
  # a greenlet of the code under test that spins on a dead simulated socket without ever yielding would hang the
  # run; the socket counts such calls (deterministically), stops the spin and the case is reported here
  from vf.world import Violation, SpinDetected, ApiRaised
  inner = mod.execute

  last = os.environ.get('VERIF_LASTPLAN')      # debugging aid: the plan being executed is written here first

  def execute(plan):
    if last:
      with open(last, 'w') as f:
        json.dump(plan, f)
    try:
      return inner(plan)
    except SpinDetected as e:
      raise Violation(mod.ID, 'busy-loop', str(e))
    except ApiRaised as e:
      raise Violation(mod.ID, 'close-raised', str(e))
  mod.execute = execute


def load_known(prop_id):
  from vf.boot import VERIF_DIR
  path = os.path.join(VERIF_DIR, 'known_findings.json')
  if not os.path.exists(path):
    return {}
  with open(path) as f:
    doc = json.load(f)
  out = {}
  for e in doc.get('findings', []):
    if e.get('property') == prop_id and e.get('status') == 'open':
      out[e['key']] = e
  return out


def write_replay(mod, plan, v):
  from vf.boot import OUT_DIR
  from vf.evidence import fp
  d = os.path.join(OUT_DIR, 'replays')
  os.makedirs(d, exist_ok=True)
  path = os.path.join(d, '%s-%s.json' % (mod.ID, fp(plan)[:8]))
  with open(path, 'w') as f:
    json.dump({'property': mod.ID, 'finding_key': v.key, 'detail': v.detail,
               'plan': plan}, f, indent=1, sort_keys=True, default=repr)
    f.write('\n')
  return path


def _report_violation(mod, plan, v):
  path = write_replay(mod, plan, v)
  print('VIOLATION property=%s replay=%s' % (mod.ID, path))
  print('  key=%s' % v.key)
  print('  detail=%s' % (v.detail,))
  sys.stdout.flush()


def run_replay(mod, path):
  from vf.world import Violation
  with open(path) as f:
    doc = json.load(f)
  plan = doc['plan']
  known = load_known(mod.ID)
  try:
    mod.execute(plan)
  except Violation as v:
    if v.key in known:
      print('KNOWN-FINDING: property=%s %s' % (mod.ID, known[v.key]['what']))
      return 0
    print('VIOLATION property=%s replay=%s' % (mod.ID, path))
    print('  key=%s' % v.key)
    print('  detail=%s' % (v.detail,))
    return 1
  print('OK property=%s replay passed' % mod.ID)
  return 0


class _Stop(Exception):
  pass


def explore(mod, tier, seed, shard, examples_override=None, no_shrink=False):
  """Run enumeration + Hypothesis search for one shard. Returns (rec, failure)."""
  import hypothesis
  from hypothesis import given, settings, HealthCheck, Phase
  from vf.evidence import Recorder, fp
  from vf.world import Violation

  k, n = shard
  rec = Recorder(mod.ID, tier, seed)
  known = load_known(mod.ID)
  budget = dict(mod.BUDGET[tier])
  if examples_override is not None:
    budget['examples'] = examples_override
  t0 = time.perf_counter()
  state = {'first_fail_at': None, 'best_fp': None, 'skipped': 0}
  shrink_budget = budget.get('shrink_seconds', 45 if tier == 'quick' else 240)
  wall_budget = budget.get('seconds')

  slow = float(os.environ.get('VERIF_SLOW', '0') or 0)

  def evaluate(plan):
    t_case = time.perf_counter()
    try:
      out = mod.execute(plan)
      if slow and time.perf_counter() - t_case > slow:
        sys.stderr.write('SLOW %.1fs %s\n' % (time.perf_counter() - t_case, json.dumps(plan, default=repr)[:3000]))
    except Violation as v:
      if v.key in known:
        rec.known_hits[v.key] += 1
        rec.excluded += 1
        rec.note(plan, None)
        return
      rec.last_failure = (plan, v)
      if rec.first_failure is None:
        rec.first_failure = (plan, v)
      raise
    rec.note(plan, out)

  # 0. saved regression inputs (shrunk failures of earlier runs), replayed without Hypothesis
  if k == 0:
    import glob
    from vf.boot import VERIF_DIR
    kept = sorted(glob.glob(os.path.join(VERIF_DIR, 'replays_kept', '%s-*.json' % mod.ID)))
    for path in kept:
      with open(path) as f:
        plan = json.load(f)['plan']
      try:
        evaluate(plan)
      except Violation as v:
        return rec, (plan, v)
    if kept:
      rec.extra['regression_replays'] = len(kept)

  # 1. enumerated sub-spaces (complete, in order; first failure is reported)
  enum = getattr(mod, 'enumerate_plans', None)
  if enum is not None:
    count = 0
    for plan in enum(tier, k, n):
      count += 1
      try:
        evaluate(plan)
      except Violation as v:
        return rec, (plan, v)
    rec.extra['enumerated'] = count
    if count:
      rec.exhaustive = True

  # 2. generated search
  examples = budget.get('examples', 0)
  if examples:
    strat = mod.strategy(tier)
    hseed = seed * 1000 + k if n > 1 else seed
    phases = [Phase.explicit, Phase.generate, Phase.target]
    if not no_shrink:
      phases.append(Phase.shrink)

    @hypothesis.seed(hseed)
    @settings(max_examples=examples, database=None, deadline=None,
              derandomize=False, report_multiple_bugs=False,
              suppress_health_check=list(HealthCheck), phases=phases,
              print_blob=False)
    @given(strat)
    def test(plan):
      now = time.perf_counter()
      if state['first_fail_at'] is None:
        if wall_budget is not None and now - t0 > wall_budget:
          state['skipped'] += 1
          return
      elif now - state['first_fail_at'] > shrink_budget:
        # shrinking budget used up: only the best known failing plan still fails
        if fp(plan) != state['best_fp']:
          return
      try:
        evaluate(plan)
      except Violation:
        if state['first_fail_at'] is None:
          state['first_fail_at'] = time.perf_counter()
        state['best_fp'] = fp(plan)
        raise

    try:
      test()
    except Violation as v:
      plan, v2 = rec.last_failure
      return rec, (plan, v2)
    except BaseException as e:
      name = type(e).__name__
      if rec.last_failure is not None and isinstance(e, Exception):
        # Hypothesis gave up after the oracle had flagged a plan (Flaky / inconsistent data generation, or an
        # internal error of its shrinker): replay that plan directly against the real code
        plan, v = rec.last_failure
        fails = 0
        for _ in range(3):
          try:
            mod.execute(plan)
          except Violation as v3:
            fails += 1
            v = v3
        flaky = 'Flaky' in name or 'Inconsistent' in name
        if fails or flaky:
          # the oracle did flag this plan against the real code: report it, saying how reproducible it is
          # (nondeterminism in the code under test, e.g. id()-keyed state, makes Hypothesis call it flaky)
          v.detail = '%s (fails in %d of 3 direct replays; Hypothesis reported %s)' % (v.detail, fails, name)
          return rec, (plan, v)
      raise
    if state['skipped']:
      rec.extra['skipped_after_time_budget'] = state['skipped']
  return rec, None


def run_single(mod, tier, seed, args):
  from vf.evidence import merge_partials, write_evidence
  t0 = time.perf_counter()
  shard = (0, 1)
  if args.shard:
    a, b = args.shard.split('/')
    shard = (int(a), int(b))
  rec, failure = explore(mod, tier, seed, shard, args.examples, args.no_shrink)
  wall = time.perf_counter() - t0
  if args.partial_out:
    part = rec.partial()
    part['failure'] = None
    if failure is not None:
      plan, v = failure
      part['failure'] = {'plan': plan, 'key': v.key, 'detail': v.detail}
    with open(args.partial_out, 'w') as f:
      json.dump(part, f, default=repr)
    return 1 if failure is not None else 0
  merged = merge_partials([rec.partial()])
  write_evidence(mod, tier, seed, merged, wall, 1 if failure else 0)
  return finish(mod, tier, merged, failure, wall)


def finish(mod, tier, merged, failure, wall):
  known = load_known(mod.ID)
  for key in sorted(known):
    print('KNOWN-FINDING: property=%s %s (key=%s, reproduced %d times in this run)' % (
        mod.ID, known[key].get('what', key), key, merged['known_hits'].get(key, 0)))
  if failure is not None:
    plan, v = failure
    _report_violation(mod, plan, v)
    return 1
  print('OK property=%s tier=%s evaluations=%d distinct_nontrivial=%d wall=%.1fs' % (
      mod.ID, tier, merged['evaluations'], len(merged['nontrivial']), wall))
  return 0


def run_sharded(mod, tier, seed, nshards, args):
  from vf.boot import VERIF_DIR
  from vf.evidence import merge_partials, write_evidence
  from vf.world import Violation
  t0 = time.perf_counter()
  from vf.boot import OUT_DIR
  pdir = os.path.join(OUT_DIR, 'evidence', '.partial-%s-%d' % (mod.ID, os.getpid()))
  os.makedirs(pdir, exist_ok=True)
  procs = []
  env = dict(os.environ)
  env['VERIF_SEED'] = str(seed)
  for k in range(nshards):
    out = os.path.join(pdir, '%d.json' % k)
    cmd = [sys.executable, '-m', 'vf.run', mod.ID, '--tier', tier,
           '--shard', '%d/%d' % (k, nshards), '--partial-out', out]
    if args.examples is not None:
      cmd += ['--examples', str(args.examples)]
    if args.no_shrink:
      cmd += ['--no-shrink']
    procs.append((k, out, subprocess.Popen(
        cmd, cwd=VERIF_DIR, env=env, stdout=subprocess.PIPE, stderr=subprocess.PIPE)))
  parts, failure, harness_err = [], None, None
  for k, out, p in procs:
    so, se = p.communicate()
    if p.returncode == 2 or not os.path.exists(out):
      harness_err = harness_err or (k, p.returncode, so.decode('utf-8', 'replace'), se.decode('utf-8', 'replace'))
      continue
    with open(out) as f:
      part = json.load(f)
    parts.append(part)
    if part.get('failure') and failure is None:
      fl = part['failure']
      failure = (fl['plan'], Violation(mod.ID, fl['key'], fl['detail']))
  for k, out, p in procs:
    try:
      os.remove(out)
    except OSError:
      pass
  try:
    os.rmdir(pdir)
  except OSError:
    pass
  if harness_err is not None and failure is None:
    k, rc, so, se = harness_err
    sys.stderr.write('HARNESS-ERROR shard %d exit %s\n%s\n%s\n' % (k, rc, so[-2000:], se[-4000:]))
    return 2
  merged = merge_partials(parts)
  wall = time.perf_counter() - t0
  write_evidence(mod, tier, seed, merged, wall, 1 if failure else 0, shards=nshards)
  return finish(mod, tier, merged, failure, wall)


def main():
  _reexec_if_needed()
  args = _args()
  try:
    import vf.boot  # noqa: F401
    mod = importlib.import_module('vf.props.' + args.prop.lower())
    _wrap_spin(mod)
    seed = _seed()
    if args.replay:
      return run_replay(mod, args.replay)
    nshards = args.shards or mod.BUDGET[args.tier].get('shards', 1)
    if args.shard is None and nshards > 1:
      return run_sharded(mod, args.tier, seed, nshards, args)
    return run_single(mod, args.tier, seed, args)
  except SystemExit:
    raise
  except BaseException:
    sys.stderr.write('HARNESS-ERROR\n')
    traceback.print_exc()
    return 2


if __name__ == '__main__':
  rc = main()
  sys.stdout.flush()
  sys.stderr.flush()
  os._exit(rc if isinstance(rc, int) else 2)   # skip finalizers of leftover greenlets
