"""`service RichGrandChild extends RichChild` (which extends Rich): a chain of three services, each in its own module
with the argument / result structs of its own methods only."""
from thrift.Thrift import TType

from vf.fixtures.richsvc import RichChild
from vf.fixtures.richsvc.Rich import _mk


class Iface(RichChild.Iface):
  def deep(self, text):
    pass


deep_args = _mk('deep_args', ('text',), (None, (1, TType.STRING, 'text', 'UTF8', None,),))
deep_args.__module__ = __name__
deep_result = _mk('deep_result', ('success',), ((0, TType.STRING, 'success', 'UTF8', None,),))
deep_result.__module__ = __name__

METHODS = dict(RichChild.METHODS, deep=(('text',), (), False))


class Processor(RichChild.Processor):
  _methods = METHODS

  @staticmethod
  def _cls(name):
    return globals()[name] if name in globals() else RichChild.Processor._cls(name)
