"""`service RichChild extends Rich`: the layout the Thrift compiler emits for service inheritance - a second module whose
Iface derives from the base module's Iface and that holds the argument / result structs of its own methods only."""
from thrift.Thrift import TType

from vf.fixtures.richsvc import Rich
from vf.fixtures.richsvc.Rich import _mk


class Iface(Rich.Iface):
  def extra(self, text):
    pass

  def poke(self):
    pass


extra_args = _mk('extra_args', ('text',), (None, (1, TType.STRING, 'text', 'UTF8', None,),))
extra_args.__module__ = __name__
extra_result = _mk('extra_result', ('success',), ((0, TType.STRING, 'success', 'UTF8', None,),))
extra_result.__module__ = __name__
poke_args = _mk('poke_args', (), ())
poke_args.__module__ = __name__
poke_result = _mk('poke_result', (), ())
poke_result.__module__ = __name__

METHODS = dict(Rich.METHODS, extra=(('text',), (), False), poke=((), (), True))


class Processor(Rich.Processor):
  _methods = METHODS

  @staticmethod
  def _cls(name):
    return globals()[name] if name in globals() else Rich.Processor._cls(name)
