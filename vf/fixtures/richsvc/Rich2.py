"""A second, unrelated service whose method names collide with Rich's (`echo`, `ping`) but whose argument and result
structs differ: `i64 echo(1: i64 n)`, `void ping()`.  Same hand-written py:dynamic layout as Rich.py."""
from thrift.Thrift import TType

from vf.fixtures.richsvc import Rich
from vf.fixtures.richsvc.Rich import _mk


class Iface(object):
  def echo(self, n):
    pass

  def ping(self):
    pass


def _here(cls):
  cls.__module__ = __name__
  return cls


echo_args = _here(_mk('echo_args', ('n',), (None, (1, TType.I64, 'n', None, None,),)))
echo_result = _here(_mk('echo_result', ('success',), ((0, TType.I64, 'success', None, None,),)))
ping_args = _here(_mk('ping_args', (), ()))
ping_result = _here(_mk('ping_result', (), ()))

METHODS = {'echo': (('n',), (), False), 'ping': ((), (), True)}


class Processor(Rich.Processor):
  _methods = METHODS

  @staticmethod
  def _cls(name):
    return globals()[name]
