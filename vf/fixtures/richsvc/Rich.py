"""Hand-written Thrift service module in the layout the Thrift compiler emits
with the ``py:dynamic`` option (classes derive from TBase, carry thrift_spec,
module-level <method>_args / <method>_result, Iface).  No Thrift compiler is
installed in the sandbox.  Harness code (DESIGN.md, fixture note).

service Rich {
  void ping(),
  string echo(1: string text),
  i64 add(1: i32 a, 2: i64 b),
  Item put(1: Item item),
  string risky(1: string what) throws (1: E1 e1, 2: E2 e2),
  bool flag(1: bool v),
  binary blob(1: binary data),
  double scale(1: double x),
  list<string> names(1: i32 n),
  void guard(1: string what) throws (1: E1 e1, 2: E2 e2),
}
"""
from thrift.Thrift import TType, TMessageType, TApplicationException, TProcessor
from thrift.protocol.TBase import TBase, TExceptionBase
from thrift.transport import TTransport


class Item(TBase):
  __slots__ = ('name', 'count', 'tags', 'weights', 'payload', 'ok', 'ratio')
  thrift_spec = (
      None,
      (1, TType.STRING, 'name', 'UTF8', None,),
      (2, TType.I32, 'count', None, None,),
      (3, TType.LIST, 'tags', (TType.STRING, 'UTF8', False), None,),
      (4, TType.MAP, 'weights', (TType.STRING, 'UTF8', TType.I64, None, False), None,),
      (5, TType.STRING, 'payload', 'BINARY', None,),
      (6, TType.BOOL, 'ok', None, None,),
      (7, TType.DOUBLE, 'ratio', None, None,),
  )

  def __init__(self, name=None, count=None, tags=None, weights=None, payload=None, ok=None, ratio=None):
    self.name = name
    self.count = count
    self.tags = tags
    self.weights = weights
    self.payload = payload
    self.ok = ok
    self.ratio = ratio


class E1(TExceptionBase):
  __slots__ = ('why',)
  thrift_spec = (None, (1, TType.STRING, 'why', 'UTF8', None,),)

  def __init__(self, why=None):
    self.why = why

  def __str__(self):
    return repr(self)


class E2(TExceptionBase):
  __slots__ = ('code', 'detail')
  thrift_spec = (None, (1, TType.I32, 'code', None, None,), (2, TType.STRING, 'detail', 'UTF8', None,),)

  def __init__(self, code=None, detail=None):
    self.code = code
    self.detail = detail

  def __str__(self):
    return repr(self)


class Iface(object):
  def ping(self):
    pass

  def echo(self, text):
    pass

  def add(self, a, b):
    pass

  def put(self, item):
    pass

  def risky(self, what):
    pass

  def flag(self, v):
    pass

  def blob(self, data):
    pass

  def scale(self, x):
    pass

  def names(self, n):
    pass

  def guard(self, what):
    pass

  def place(self, label, zone):
    pass


def _mk(name, slots, spec):
  def __init__(self, *args, **kwargs):
    for s in slots:
      setattr(self, s, None)
    for s, v in zip(slots, args):
      setattr(self, s, v)
    for k, v in kwargs.items():
      if k not in slots:
        raise TypeError('%s() got an unexpected keyword argument %r' % (name, k))
      setattr(self, k, v)
    if len(args) > len(slots):
      raise TypeError('%s() takes at most %d arguments (%d given)' % (name, len(slots), len(args)))
  return type(name, (TBase,), {'__slots__': tuple(slots), 'thrift_spec': spec, '__init__': __init__,
                               '__module__': __name__})


ping_args = _mk('ping_args', (), ())
ping_result = _mk('ping_result', (), ())
echo_args = _mk('echo_args', ('text',), (None, (1, TType.STRING, 'text', 'UTF8', None,),))
echo_result = _mk('echo_result', ('success',), ((0, TType.STRING, 'success', 'UTF8', None,),))
add_args = _mk('add_args', ('a', 'b'), (None, (1, TType.I32, 'a', None, None,), (2, TType.I64, 'b', None, None,),))
add_result = _mk('add_result', ('success',), ((0, TType.I64, 'success', None, None,),))
put_args = _mk('put_args', ('item',), (None, (1, TType.STRUCT, 'item', [Item, Item.thrift_spec], None,),))
put_result = _mk('put_result', ('success',), ((0, TType.STRUCT, 'success', [Item, Item.thrift_spec], None,),))
risky_args = _mk('risky_args', ('what',), (None, (1, TType.STRING, 'what', 'UTF8', None,),))
risky_result = _mk('risky_result', ('success', 'e1', 'e2'), (
    (0, TType.STRING, 'success', 'UTF8', None,),
    (1, TType.STRUCT, 'e1', [E1, E1.thrift_spec], None,),
    (2, TType.STRUCT, 'e2', [E2, E2.thrift_spec], None,),
))
flag_args = _mk('flag_args', ('v',), (None, (1, TType.BOOL, 'v', None, None,),))
flag_result = _mk('flag_result', ('success',), ((0, TType.BOOL, 'success', None, None,),))
blob_args = _mk('blob_args', ('data',), (None, (1, TType.STRING, 'data', 'BINARY', None,),))
blob_result = _mk('blob_result', ('success',), ((0, TType.STRING, 'success', 'BINARY', None,),))
scale_args = _mk('scale_args', ('x',), (None, (1, TType.DOUBLE, 'x', None, None,),))
scale_result = _mk('scale_result', ('success',), ((0, TType.DOUBLE, 'success', None, None,),))
names_args = _mk('names_args', ('n',), (None, (1, TType.I32, 'n', None, None,),))
names_result = _mk('names_result', ('success',), ((0, TType.LIST, 'success', (TType.STRING, 'UTF8', False), None,),))
guard_args = _mk('guard_args', ('what',), (None, (1, TType.STRING, 'what', 'UTF8', None,),))
# a void method that declares exceptions: the compiler leaves slot 0 (success) empty
guard_result = _mk('guard_result', ('e1', 'e2'), (
    None,
    (1, TType.STRUCT, 'e1', [E1, E1.thrift_spec], None,),
    (2, TType.STRUCT, 'e2', [E2, E2.thrift_spec], None,),
))
# string place(2: string label, 1: string zone): the parameter ids are not in declaration order; the compiler emits the
# thrift_spec by field id and the constructor / Iface signature in declaration order
place_args = _mk('place_args', ('label', 'zone'), (None, (1, TType.STRING, 'zone', 'UTF8', None,), (2, TType.STRING, 'label', 'UTF8', None,),))
place_result = _mk('place_result', ('success',), ((0, TType.STRING, 'success', 'UTF8', None,),))

for _cls in (Item, E1, E2):
  _cls.thrift_spec = tuple(_cls.thrift_spec)
Item.thrift_spec = Item.thrift_spec
E1.thrift_spec = E1.thrift_spec

METHODS = {
    # name: (arg slots, declared exception slots, void?)
    'ping': ((), (), True),
    'echo': (('text',), (), False),
    'add': (('a', 'b'), (), False),
    'put': (('item',), (), False),
    'risky': (('what',), ('e1', 'e2'), False),
    'flag': (('v',), (), False),
    'blob': (('data',), (), False),
    'scale': (('x',), (), False),
    'names': (('n',), (), False),
    'guard': (('what',), ('e1', 'e2'), True),
    'place': (('label', 'zone'), (), False),
}


class Processor(Iface, TProcessor):
  """Generic server-side processor written with the Thrift library's protocol
  primitives only (the compiler would emit one process_<m> per method)."""

  _methods = METHODS

  def __init__(self, handler):
    self._handler = handler

  @staticmethod
  def _cls(name):
    return globals()[name]

  def process(self, iprot, oprot):
    METHODS = self._methods
    (name, mtype, seqid) = iprot.readMessageBegin()
    if name not in METHODS:
      iprot.skip(TType.STRUCT)
      iprot.readMessageEnd()
      x = TApplicationException(TApplicationException.UNKNOWN_METHOD, 'Unknown function %s' % name)
      oprot.writeMessageBegin(name, TMessageType.EXCEPTION, seqid)
      x.write(oprot)
      oprot.writeMessageEnd()
      oprot.trans.flush()
      return
    slots, excs, void = METHODS[name]
    args = self._cls(name + '_args')()
    args.read(iprot)
    iprot.readMessageEnd()
    result = self._cls(name + '_result')()
    msg_type = TMessageType.REPLY
    try:
      ret = getattr(self._handler, name)(*[getattr(args, s) for s in slots])
      if not void:
        result.success = ret
    except TTransport.TTransportException:
      raise
    except TApplicationException as ex:
      msg_type = TMessageType.EXCEPTION
      result = ex
    except Exception as ex:
      for slot, spec in zip(excs, [s for s in type(result).thrift_spec[1:]]):
        if isinstance(ex, spec[3][0]):
          setattr(result, slot, ex)
          break
      else:
        msg_type = TMessageType.EXCEPTION
        result = TApplicationException(TApplicationException.INTERNAL_ERROR, 'Internal error')
    oprot.writeMessageBegin(name, msg_type, seqid)
    result.write(oprot)
    oprot.writeMessageEnd()
    oprot.trans.flush()
    return True
