"""`service RichChild2 extends Rich2`: a second inherited service in the same process; its own method `extra` collides by
name with RichChild.extra but takes and returns an i32."""
from thrift.Thrift import TType

from vf.fixtures.richsvc import Rich2
from vf.fixtures.richsvc.Rich import _mk


class Iface(Rich2.Iface):
  def extra(self, k):
    pass


def _here(cls):
  cls.__module__ = __name__
  return cls


extra_args = _here(_mk('extra_args', ('k',), (None, (1, TType.I32, 'k', None, None,),)))
extra_result = _here(_mk('extra_result', ('success',), ((0, TType.I32, 'success', None, None,),)))

METHODS = dict(Rich2.METHODS, extra=(('k',), (), False))


class Processor(Rich2.Processor):
  _methods = METHODS

  @staticmethod
  def _cls(name):
    return globals()[name] if name in globals() else Rich2.Processor._cls(name)
