"""Generator helpers shared by the property modules."""
from hypothesis import strategies as st


def sized_list(elem, lo, hi):
  """Lists whose length is drawn uniformly from [lo, hi] (st.lists alone
  averages ~5 elements when min_size is 0) and still shrinks towards lo."""
  return st.integers(lo, hi).flatmap(lambda n: st.lists(elem, min_size=n, max_size=n))


def weighted(*pairs):
  """one_of with integer weights: weighted((3, a), (1, b))."""
  out = []
  for w, s in pairs:
    out.extend([s] * w)
  return st.one_of(*out)
