"""Generator helpers shared by the property modules."""
from hypothesis import strategies as st


def sized_list(elem, lo, hi):
  """Lists whose length is drawn uniformly from [lo, hi] (st.lists alone
  averages ~5 elements when min_size is 0) and still shrinks towards lo."""
  return st.integers(lo, hi).flatmap(lambda n: st.lists(elem, min_size=n, max_size=n))


def weighted(*pairs):
  """Choice with integer weights: weighted((3, a), (1, b)) draws from a three times as often as from b.

  st.one_of(a, a, a, b) does NOT do that: Hypothesis drops repeated branches, so every distinct branch is equally
  likely.  The branch index is drawn from a list with multiplicities instead."""
  strategies = [s for w, s in pairs]
  idx = []
  for i, (w, s) in enumerate(pairs):
    idx.extend([i] * int(w))
  return st.sampled_from(idx).flatmap(lambda i: strategies[i])
