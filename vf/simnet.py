"""Simulated network below scales.scales_socket.gsocket (DESIGN.md 2.3).

ScalesSocket / VarzSocketWrapper and everything above run as shipped; only the
socket object they create is replaced.  Faults are injected by I/O-operation
index, reads are chunked as the plan says, every operation is logged with the
virtual time and a global sequence number.
"""
import errno
import os
import socket as _socket

import gevent
from gevent.event import Event

from vf.boot import loop

import scales.scales_socket as _ss


class _FakeSocketModule(object):
  """Stands in for the ``socket`` module inside scales.scales_socket: numeric
  resolution only, so that no resolver (and no AI_ADDRCONFIG quirk of a
  network-less sandbox) is involved."""
  AF_UNSPEC = _socket.AF_UNSPEC
  AF_INET = _socket.AF_INET
  SOCK_STREAM = _socket.SOCK_STREAM
  AI_PASSIVE = _socket.AI_PASSIVE
  AI_ADDRCONFIG = _socket.AI_ADDRCONFIG
  error = _socket.error
  gaierror = _socket.gaierror
  herror = _socket.herror
  timeout = _socket.timeout
  current_net = None

  @staticmethod
  def getaddrinfo(host, port, *a):
    net = _FakeSocketModule.current_net
    if net is not None:
      k = net.n_resolve
      net.n_resolve += 1
      if k in net.resolve_fail:
        # name resolution fails for this connect attempt
        net.record('resolve_failed', None, (host, int(port), k))
        raise _socket.gaierror(-2, 'Name or service not known (injected)')
    return [(_socket.AF_INET, _socket.SOCK_STREAM, 6, '', (host, int(port)))]


def _spin(msg):
  from vf.world import World, SpinBreak
  if World.current is not None and World.current.spin is None:
    World.current.spin = msg
  return SpinBreak(msg)


class FakeSocket(object):
  def __init__(self, net, family=None, type=None):
    self.net = net
    self.rx = bytearray()
    self.rx_evt = Event()
    self.closed = False
    self.connected = False
    self.eof = False
    self.err = None
    self._trickle_q = []
    self._pumping = False
    self.err_reported = False
    self.spins = 0
    self.server = None
    self.cid = None
    self.addr = None
    self.n_send = 0
    self.n_recv = 0
    self.nth = None            # k-th connection to its server
    self.tx_bytes = 0
    self.peer_state = {}       # scratch space for the peer

  def __repr__(self):
    return 'sock#%r' % (self.cid,)

  # --- client side API (what ScalesSocket / VarzSocketWrapper use)
  def setsockopt(self, *a):
    pass

  def connect(self, addr):
    self.net.connect(self, addr)

  def close(self):
    if not self.closed:
      self.closed = True
      self.net.record('close', self)
      self.rx_evt.set()
      if self.server is not None and self.connected:
        self.server.on_client_close(self)

  def _fault(self, op, index):
    f = self.net.io_fault
    if f is None:
      return None
    return f(self, op, index)

  def _wait_rx(self):
    while not self.rx and not self.eof and not self.closed and self.err is None:
      self.rx_evt.clear()
      self.rx_evt.wait()
    if self.closed:
      raise _socket.error(errno.EBADF, 'Bad file descriptor')
    if not self.rx and self.err is not None:
      if self.err_reported:
        # like a Linux TCP socket: the pending error is reported to one call; the socket is then simply at its end
        self.spins += 1
        if self.spins > 1000:
          raise _spin('recv called %d times on connection %d after it reported %r' % (self.spins, self.nth, self.err))
        self.eof = True
        return
      self.err_reported = True
      raise self.err

  def recv(self, sz):
    if self.closed:
      raise _socket.error(errno.EBADF, 'Bad file descriptor')
    if not self.connected:
      raise _socket.error(errno.ENOTCONN, 'Transport endpoint is not connected')
    idx = self.n_recv
    self.n_recv += 1
    kind = self._fault('recv', idx)
    if kind in ('raise_on_data', 'eof_on_data'):
      # the connection breaks while this read is waiting for / receiving data
      self._wait_rx()
      kind = kind[:-len('_on_data')]
    if kind == 'raise':
      self.net.record('fault', self, ('recv', idx, kind))
      code = getattr(self.net, 'fault_errno', None) or errno.ECONNRESET
      # (OSError maps ETIMEDOUT to the builtin TimeoutError, which is also socket.timeout)
      self.err = _socket.error(code, '%s (injected)' % os.strerror(code))
      self.err_reported = True
      raise self.err
    if kind == 'eof':
      self.net.record('fault', self, ('recv', idx, kind))
      self.eof = True
      del self.rx[:]
      return b''
    self._wait_rx()
    if not self.rx:
      self.spins += 1
      if self.spins > 1000:
        raise _spin('recv called %d times on connection %d after it reached its end' % (self.spins, self.nth))
      return b''
    n = min(sz, self.net.chunk(self, len(self.rx), sz))
    n = max(1, n)
    out = bytes(self.rx[:n])
    del self.rx[:n]
    return out

  def recv_into(self, view, sz=0):
    d = self.recv(sz or len(view))
    view[:len(d)] = d
    return len(d)

  def send(self, buf):
    # like a real socket, send() may take only part of the buffer (net.send_max bytes at most)
    m = self.net.send_max
    n = len(buf) if not m else min(len(buf), m)
    self.sendall(bytes(buf[:n]))
    return n

  def sendall(self, buf):
    if self.closed:
      raise _socket.error(errno.EBADF, 'Bad file descriptor')
    if not self.connected:
      raise _socket.error(errno.ENOTCONN, 'Transport endpoint is not connected')
    gate = self.net.gate
    if gate is not None:
      evt = gate(self, bytes(buf))
      if evt is not None:
        self.net.record('gated', self, len(buf))
        evt.wait()
        if self.closed:
          raise _socket.error(errno.EBADF, 'Bad file descriptor')
    idx = self.n_send
    self.n_send += 1
    kind = self._fault('send', idx)
    if kind in ('raise', 'eof'):
      self.net.record('fault', self, ('send', idx, kind))
      raise _socket.error(errno.EPIPE, 'Broken pipe (injected)')
    if self.err is not None:
      raise _socket.error(errno.EPIPE, 'Broken pipe')
    data = bytes(buf)
    st = self.net.stall(self, data, idx) if self.net.stall is not None else None
    if st:
      # the peer's window is full after k bytes: the rest goes out later (or never, if the caller is
      # interrupted by its own timeout while blocked here)
      k, secs = st
      k = max(1, min(len(data) - 1, k))
      first, rest = data[:k], data[k:]
      self.tx_bytes += len(first)
      self.net.record('tx', self, first)
      if not self.eof:
        self.server.on_data(self, first)
      self.net.record('stall', self, secs)
      gevent.sleep(secs)
      if self.closed:
        raise _socket.error(errno.EBADF, 'Bad file descriptor')
      data = rest
    self.tx_bytes += len(data)
    self.net.record('tx', self, data)
    if not self.eof:
      self.server.on_data(self, data)

  # --- server side API
  def deliver(self, data):
    if self.closed or self.eof or self.err is not None:
      return False
    tr = self.net.trickle
    pieces = tr(self, bytes(data)) if tr is not None else None
    if not pieces:
      if self._trickle_q:
        self._trickle_q.append((0.0, bytes(data)))      # stays behind what is still on its way
        return True
      self.net.record('rx', self, bytes(data))
      self.rx += data
      self.rx_evt.set()
      return True
    # the peer's bytes arrive as several segments with time in between: a reader blocks (yields) part-way through
    self._trickle_q.extend(pieces)
    if not self._pumping:
      self._pumping = True
      gevent.spawn(self._pump)
    return True

  def _pump(self):
    try:
      while self._trickle_q:
        delay, chunk = self._trickle_q.pop(0)
        if delay:
          gevent.sleep(delay)
        if self.closed or self.eof or self.err is not None:
          del self._trickle_q[:]
          return
        self.net.record('rx', self, chunk)
        self.rx += chunk
        self.rx_evt.set()
    finally:
      self._pumping = False

  def deliver_eof(self):
    if not self.eof:
      self.eof = True
      self.net.record('peer_eof', self)
      self.rx_evt.set()

  def deliver_reset(self, code=None):
    if self.err is None:
      # OSError maps the errno to its subclass: ETIMEDOUT gives the builtin TimeoutError (== socket.timeout)
      self.err = _socket.error(code or errno.ECONNRESET, 'Connection reset by peer' if not code else os.strerror(code))
      self.net.record('peer_reset', self)
      self.rx_evt.set()


class Server(object):
  """One listening address.  ``peer`` handles the bytes."""

  def __init__(self, net, addr, peer, connect_script=None):
    self.net = net
    self.addr = addr
    self.peer = peer
    self.up = True
    self.connect_script = list(connect_script or [])
    self.default_connect = ['accept', 0.001]
    self.down_refuse_delay = 0.0005
    self.conns = []
    self.n_connects = 0
    peer.server = self
    net.servers[addr] = self

  def next_connect(self):
    i = self.n_connects
    self.n_connects += 1
    if getattr(self, 'blackhole', None):
      return ['hang', self.blackhole]        # nobody answers: the attempt gives up with ETIMEDOUT after that many seconds
    if not self.up:
      return ['refuse', self.down_refuse_delay]
    if i < len(self.connect_script):
      return self.connect_script[i]
    return self.default_connect

  def live(self):
    return [c for c in self.conns if not c.closed and not c.eof and c.err is None]

  def set_down(self, reset=True):
    self.up = False
    if reset:
      for c in self.live():
        c.deliver_reset()

  def set_up(self):
    self.up = True

  def on_data(self, sock, data):
    self.peer.on_data(sock, data)

  def on_client_close(self, sock):
    self.peer.on_client_close(sock)


class SimNet(object):
  def __init__(self):
    self.servers = {}
    self.log = []          # (seq, time, kind, cid, payload)
    self._cid = 0
    self.seq = 0
    self.io_fault = None   # fn(sock, op, index) -> None | 'raise' | 'eof'
    self.gate = None       # fn(sock, bytes) -> Event | None
    self.chunker = None    # fn(sock, avail, want) -> n
    self.on_connect = None # fn(sock): called when a connect attempt starts
    self.send_max = None   # most bytes one send() call accepts (sendall always takes everything)
    self.n_resolve = 0
    self.resolve_fail = set()   # indices of name resolutions (one per connect attempt) that fail
    self.stall = None      # fn(sock, data, send_index) -> None | (k bytes, seconds)
    self.trickle = None    # fn(sock, data) -> None | [(delay seconds, bytes), ...]: how a delivery is spread over time
    self.sockets = []

  def install(self):
    _ss.gsocket = self.socket
    _ss.socket = _FakeSocketModule
    _FakeSocketModule.current_net = self

  def record(self, kind, sock, payload=None):
    self.seq += 1
    self.log.append((self.seq, loop.now(), kind, sock.cid if sock is not None else None, payload))
    return self.seq

  def chunk(self, sock, avail, want):
    if self.chunker is None:
      return avail
    return self.chunker(sock, avail, want)

  def socket(self, family=None, type=None):
    s = FakeSocket(self, family, type)
    self.sockets.append(s)
    return s

  def connect(self, sock, addr):
    self._cid += 1
    sock.cid = self._cid
    sock.addr = (addr[0], addr[1])
    if self.on_connect is not None:
      self.on_connect(sock)
    srv = self.servers.get(sock.addr)
    self.record('connect', sock, sock.addr)
    script = srv.next_connect() if srv is not None else ['refuse', 0.0005]
    kind = script[0]
    delay = script[1] if len(script) > 1 else 0.0005
    gevent.sleep(delay)
    if kind == 'accept' and srv.up and not sock.closed:
      sock.server = srv
      sock.connected = True
      sock.nth = len(srv.conns)
      srv.conns.append(sock)
      self.record('connected', sock, sock.addr)
      srv.peer.on_connect(sock)
      return
    if sock.closed:
      raise _socket.error(errno.EBADF, 'Bad file descriptor')
    if kind == 'hang':
      self.record('connect_timeout', sock, sock.addr)
      raise _socket.error(errno.ETIMEDOUT, 'Connection timed out')
    self.record('refused', sock, sock.addr)
    raise _socket.error(errno.ECONNREFUSED, 'Connection refused')

  # log helpers
  def events(self, kind):
    return [e for e in self.log if e[2] == kind]


class Peer(object):
  server = None

  def on_connect(self, sock):
    pass

  def on_data(self, sock, data):
    pass

  def on_client_close(self, sock):
    pass
