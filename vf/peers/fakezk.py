"""In-process fake Kazoo client: a znode tree with one-shot data / child
watches delivered by a single callback greenlet that survives callback
exceptions (as kazoo's gevent handler does).  The real kazoo DataWatch and
ChildrenWatch recipes run on top of it."""
import collections

import gevent
from gevent.lock import RLock
from gevent.queue import Queue

from kazoo.client import KazooClient
from kazoo.exceptions import NoNodeError
from kazoo.protocol.states import WatchedEvent, EventType, KeeperState

from kazoo.protocol.states import ZnodeStat


def Stat(czxid, mzxid, version, data):
  return ZnodeStat(czxid, mzxid, 0, 0, version, 0, 0, 0, len(data), 0, czxid)


class _Handler(object):
  def lock_object(self):
    return RLock()

  def sleep_func(self, s):
    gevent.sleep(s)

  def spawn(self, f, *a, **k):
    return gevent.spawn(f, *a, **k)


class FakeKazoo(KazooClient):
  connected = True

  def __init__(self, latencies=(0.001,)):
    # deliberately not calling KazooClient.__init__: no sockets, no threads
    self.handler = _Handler()
    self.tree = {}
    self.zxid = 0
    self.dw = collections.defaultdict(list)
    self.cw = collections.defaultdict(list)
    self.evq = Queue()
    self.latencies = list(latencies)
    self.ncalls = 0
    self.busy = False          # the event handler greenlet is inside a callback
    self.override = {}         # method name -> latency, takes precedence over the cycle (choreographed races)
    self.callback_errors = []
    self.incarnations = {}     # path -> [dict(czxid, created, deleted, had_children)]
    self._pump_g = gevent.spawn(self._pump)

  def start(self, timeout=15):
    pass

  def stop(self):
    pass

  def add_listener(self, l):
    pass

  def remove_listener(self, l):
    pass

  def retry(self, f, *a, **k):
    return f(*a, **k)

  def _pump(self):
    while True:
      w, ev = self.evq.get()
      self.busy = True
      try:
        w(ev)
      except Exception as e:      # kazoo's handler logs and carries on
        self.callback_errors.append(repr(e))
      finally:
        self.busy = False

  def _lat(self, method=None):
    d = self.latencies[self.ncalls % len(self.latencies)]
    self.ncalls += 1
    if method in self.override:
      d = self.override[method]
    if d:
      gevent.sleep(d)
    else:
      gevent.sleep(0)

  # --- client API used by scales and the recipes
  def exists(self, path, watch=None):
    self._lat('exists')
    if watch:
      self.dw[path].append(watch)
    return self.tree[path][1] if path in self.tree else None

  def get(self, path, watch=None):
    self._lat('get')
    if path not in self.tree:
      raise NoNodeError()
    if watch:
      self.dw[path].append(watch)
    return self.tree[path]

  def get_children(self, path, watch=None):
    self._lat('get_children')
    if path not in self.tree:
      raise NoNodeError()
    if watch:
      self.cw[path].append(watch)
    return sorted(p[len(path) + 1:] for p in self.tree if p.startswith(path + '/'))

  # --- server side
  def _fire(self, table, path, typ):
    ws, table[path] = table[path], []
    for w in ws:
      self.evq.put((w, WatchedEvent(typ, KeeperState.CONNECTED, path)))

  def z_create(self, path, data=b''):
    if path in self.tree:
      return False
    parent = path.rsplit('/', 1)[0]
    if parent and parent not in self.tree:
      return False
    self.zxid += 1
    self.tree[path] = (data, Stat(self.zxid, self.zxid, 0, data))
    import vf.boot as _b
    self.incarnations.setdefault(path, []).append({'czxid': self.zxid, 'created': _b.loop.now(), 'deleted': None, 'children': set()})
    if parent and self.incarnations.get(parent):
      self.incarnations[parent][-1]['children'].add(path.rsplit('/', 1)[1])
    self._fire(self.dw, path, EventType.CREATED)
    if parent:
      self._fire(self.cw, parent, EventType.CHILD)
    return True

  def z_set(self, path, data):
    """Data of an existing node changes (version bump): data watches fire with CHANGED."""
    if path not in self.tree:
      return False
    self.zxid += 1
    old = self.tree[path][1]
    self.tree[path] = (data, Stat(old.czxid, self.zxid, old.version + 1, data))
    self._fire(self.dw, path, EventType.CHANGED)
    return True

  def z_delete(self, path):
    if path not in self.tree:
      return False
    if any(p.startswith(path + '/') for p in self.tree):
      return False         # ZooKeeper refuses to delete a node with children
    self.zxid += 1
    del self.tree[path]
    import vf.boot as _b
    if self.incarnations.get(path):
      self.incarnations[path][-1]['deleted'] = _b.loop.now()
    self._fire(self.dw, path, EventType.DELETED)
    self._fire(self.cw, path, EventType.DELETED)
    parent = path.rsplit('/', 1)[0]
    if parent:
      self._fire(self.cw, parent, EventType.CHILD)
    return True

  def children(self, path):
    if path not in self.tree:
      return None
    return sorted(p[len(path) + 1:] for p in self.tree if p.startswith(path + '/'))
