"""Kafka broker peer on the harness's own codec."""
from vf.boot import loop
from vf.codecs import kafka_ref as K
from vf.peers.thrift_serial import FramedPeer


class KafkaPeer(FramedPeer):
  """Records parsed requests; the harness decides when and what to answer
  (peer.reply(sock, bytes))."""

  def __init__(self):
    FramedPeer.__init__(self)
    self.requests = []

  def on_frame(self, sock, frame):
    rec = {'t': loop.now(), 'cid': sock.cid, 'sock': sock, 'raw': frame}
    try:
      rec['req'] = K.parse_request(frame)
    except K.KafkaDecodeError as e:
      rec['error'] = str(e)
    self.requests.append(rec)
