"""Mux peer on the harness's own codec."""
import gevent

from vf.boot import loop
from vf.codecs import mux_ref as M
from vf.peers.thrift_serial import Handler, run_processor
from vf.simnet import Peer


class MuxPeer(Peer):
  """``script(k, frame_dict, method, args)`` -> action for the k-th Tdispatch:
       ['reply', d] | ['never'] | ['error', d, text] | ['nack', d] | ['rerr', d, text]
       | ['close', d] | ['reset', d]
     ``ping(k)`` -> ['pong', d] | ['ignore']"""

  def __init__(self, processor_factory, respond, script=None, ping=None, reply_contexts=()):
    self.handler = Handler(respond)
    self.processor = processor_factory(self.handler)
    self.script = script or (lambda k, f, method, args: ['reply', 0.001])
    self.ping = ping or (lambda k: ['pong', 0.0005])
    self.reply_contexts = tuple(reply_contexts)
    self.bufs = {}
    self.frames = []      # dicts: t, seq, cid, + decoded frame
    self.bad = []
    self.n_dispatch = 0
    self.n_ping = 0

  def on_data(self, sock, data):
    b = self.bufs.setdefault(sock.cid, bytearray())
    b += data
    try:
      frames = M.split_frames(b)
    except M.MuxDecodeError as e:
      self.bad.append((loop.now(), sock.cid, str(e)))
      del b[:]
      return
    for fr in frames:
      try:
        d = M.decode_frame(fr)
      except M.MuxDecodeError as e:
        self.bad.append((loop.now(), sock.cid, str(e)))
        continue
      d.update(t=loop.now(), cid=sock.cid, seq=sock.net.seq, raw=fr)
      self.frames.append(d)
      self.on_frame(sock, d)

  def leftover(self):
    return dict((cid, bytes(b)) for cid, b in self.bufs.items() if b)

  def on_frame(self, sock, d):
    t = d['type']
    if t == M.T_PING:
      k = self.n_ping
      self.n_ping += 1
      act = self.ping(k)
      if act[0] == 'pong':
        gevent.spawn(self._later, act[1], sock, M.encode_frame(M.R_PING, d['tag']))
        hops = getattr(self, 'drop_after_next_pong', None)
        if hops is not None:
          # the peer answers the ping and goes away again a few turns of the client's event loop later
          self.drop_after_next_pong = None

          def drop(delay=act[1], n=hops):
            gevent.sleep(delay)
            for _ in range(n):
              gevent.sleep(0)
            sock.deliver_eof()
          gevent.spawn(drop)
    elif t == M.T_DISPATCH:
      k = self.n_dispatch
      self.n_dispatch += 1
      d['k'] = k
      before = len(self.handler.calls)
      out = b''
      try:
        out = run_processor(self.processor, d['payload'])
      except Exception as e:
        d['decode_error'] = repr(e)
      d['method'], d['args'] = (self.handler.calls[-1] if len(self.handler.calls) > before else (None, None))
      act = self.script(k, d, d['method'], d['args'])
      d['action'] = act
      gevent.spawn(self._act, sock, d, act, out)

  def _later(self, delay, sock, data):
    if delay:
      gevent.sleep(delay)
    sock.deliver(data)

  def _act(self, sock, d, act, out):
    kind = act[0]
    delay = act[1] if len(act) > 1 else 0
    if kind == 'never':
      return
    if delay:
      gevent.sleep(delay)
    tag = d['tag']
    if kind == 'reply':
      sock.deliver(M.encode_rdispatch(tag, M.OK, out, self.reply_contexts))
    elif kind == 'error':
      sock.deliver(M.encode_rdispatch(tag, M.ERROR, act[2].encode('utf-8'), self.reply_contexts))
    elif kind == 'nack':
      sock.deliver(M.encode_rdispatch(tag, M.NACK, b'', self.reply_contexts))
    elif kind == 'rerr':
      sock.deliver(M.encode_frame(M.R_ERR, tag, act[2].encode('utf-8')))
    elif kind == 'close':
      sock.deliver_eof()
    elif kind == 'reset':
      sock.deliver_reset()
    else:
      raise ValueError(act)

  # adversarial helpers (C11)
  def send(self, sock, typ, tag, body=b''):
    sock.deliver(M.encode_frame(typ, tag, body))
