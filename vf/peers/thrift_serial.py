"""Scripted peers for the simulated network."""
import struct

import gevent
from thrift.protocol.TBinaryProtocol import TBinaryProtocol
from thrift.transport.TTransport import TMemoryBuffer

from vf.boot import loop
from vf.simnet import Peer


class Handler(object):
  """Generic logging handler: any method name is accepted; ``respond(method,
  args)`` produces the return value or raises."""

  def __init__(self, respond):
    self._respond = respond
    self.calls = []

  def __getattr__(self, name):
    if name.startswith('_'):
      raise AttributeError(name)

    def call(*args):
      self.calls.append((name, args))
      return self._respond(name, args)
    return call


def run_processor(processor, payload):
  """Decode one Thrift message with the pure-Python binary protocol, run the
  processor, return the reply bytes (b'' for a oneway call)."""
  itr = TMemoryBuffer(payload)
  otr = TMemoryBuffer()
  processor.process(TBinaryProtocol(itr), TBinaryProtocol(otr))
  return otr.getvalue()


class FramedPeer(Peer):
  """4-byte big-endian length prefixed frames."""

  def __init__(self):
    self.bufs = {}
    self.bad = []        # framing problems seen

  def on_data(self, sock, data):
    b = self.bufs.setdefault(sock.cid, bytearray())
    b += data
    while len(b) >= 4:
      n, = struct.unpack('!i', bytes(b[:4]))
      if n < 0 or n > (1 << 26):
        self.bad.append((loop.now(), sock.cid, 'length prefix %d' % n))
        del b[:]
        return
      if len(b) < 4 + n:
        break
      frame = bytes(b[4:4 + n])
      del b[:4 + n]
      self.on_frame(sock, frame)

  def leftover(self):
    return dict((cid, bytes(b)) for cid, b in self.bufs.items() if b)

  def on_frame(self, sock, frame):
    raise NotImplementedError()


class ThriftSerialPeer(FramedPeer):
  """Framed Thrift server.  ``script(k, method, args)`` -> action:
       ['reply', d]          reply after d seconds
       ['never']             never reply
       ['close', d]          end-of-stream instead of a reply
       ['reset', d]          connection reset instead of a reply
       ['eof_mid', d]        half of the reply frame, then end-of-stream
  What the handler returns / raises is the business of ``respond``."""

  def __init__(self, processor_factory, respond, script=None):
    FramedPeer.__init__(self)
    self.handler = Handler(respond)
    self.processor = processor_factory(self.handler)
    self.script = script or (lambda k, method, args: ['reply', 0.001])
    self.requests = []       # dicts: t, cid, k, method, args, action
    self.n = 0

  def on_frame(self, sock, frame):
    k = self.n
    self.n += 1
    before = len(self.handler.calls)
    rec = {'t': loop.now(), 'cid': sock.cid, 'k': k, 'method': None, 'args': None, 'raw': frame}
    self.requests.append(rec)
    try:
      out = run_processor(self.processor, frame)
    except Exception as e:
      rec['decode_error'] = repr(e)
      return
    if len(self.handler.calls) > before:
      rec['method'], rec['args'] = self.handler.calls[-1]
    action = self.script(k, rec['method'], rec['args'])
    rec['action'] = action
    gevent.spawn(self._act, sock, action, out)

  def _act(self, sock, action, out):
    kind = action[0]
    d = action[1] if len(action) > 1 else 0
    if kind == 'never':
      return
    if d:
      gevent.sleep(d)
    frame = struct.pack('!i', len(out)) + out
    if kind == 'reply':
      sock.deliver(frame)
    elif kind == 'close':
      sock.deliver_eof()
    elif kind == 'reset':
      sock.deliver_reset()
    elif kind == 'etimedout':
      import errno
      sock.deliver_reset(errno.ETIMEDOUT)      # the kernel gives up on the connection (keep-alive / retransmission timeout)
    elif kind == 'eof_mid':
      sock.deliver(frame[:max(1, len(frame) // 2)])
      sock.deliver_eof()
    else:
      raise ValueError(action)
