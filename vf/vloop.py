"""Virtual-time event loop for gevent (DESIGN.md 2.1).

Selected with ``gevent.config.loop = "vf.vloop.VirtualLoop"`` before the hub is
created.  Implements the part of gevent's ILoop that gevent calls when no real
file descriptor is used.  Semantics:

* callbacks run strictly FIFO (gevent's documented order);
* when the run queue is empty, timers that are due fire one at a time in
  (due time, registration order); when none is due, waiters registered with
  ``on_settled`` are resumed; otherwise the clock jumps to the earliest timer;
* each dispatched callback / timer advances the clock by ``cpu`` seconds
  (default 1 microsecond) so that code never observes a frozen ``time.time()``
  across two events; ``cpu = 0`` gives an exact clock (timer-queue harness).
"""
import heapq
import itertools
import sys
import traceback


class _Callback(object):
  __slots__ = ('callback', 'args')

  def __init__(self, cb, args):
    self.callback = cb
    self.args = args

  def stop(self):
    self.callback = None
    self.args = None

  close = stop

  @property
  def pending(self):
    return self.callback is not None

  def __bool__(self):
    return self.args is not None


class _Watcher(object):
  def __init__(self, loop, ref=True):
    self.loop = loop
    self.ref = ref
    self.callback = None
    self.args = None
    self._active = False
    self.priority = 0

  @property
  def active(self):
    return self._active

  @property
  def pending(self):
    return False

  def start(self, callback, *args, **kw):
    self.callback = callback
    self.args = args
    self._active = True

  def stop(self):
    self._active = False
    self.callback = None
    self.args = None

  def close(self):
    self.stop()

  def __enter__(self):
    return self

  def __exit__(self, *a):
    self.close()


class _Timer(_Watcher):
  def __init__(self, loop, after, repeat=0.0, ref=True):
    _Watcher.__init__(self, loop, ref)
    self.after = max(0.0, float(after))
    self.repeat = repeat
    self._gen = 0

  def start(self, callback, *args, **kw):
    kw.pop('update', None)
    _Watcher.start(self, callback, *args)
    self._gen += 1
    self.loop._add_timer(self.loop._now + self.after, self, self._gen)

  def again(self, callback, *args, **kw):
    self.start(callback, *args, **kw)

  def stop(self):
    self._gen += 1
    _Watcher.stop(self)


class VirtualLoop(object):
  default = True
  approx_timer_resolution = 0.0
  MAXPRI = 2
  MINPRI = -2
  error_handler = None
  EPOCH = 1600000000.0

  def __init__(self, flags=None, default=None):
    self._now = self.EPOCH
    self._callbacks = []      # FIFO
    self._timers = []         # heap of (due, seq, timer, gen)
    self._seq = itertools.count()
    self._settled_hooks = []
    self.cpu = 1e-6
    self.errors = []          # (context, type, value) raised by callbacks
    self.dispatched = 0

  # --- harness controls
  def reset(self, epoch=None, cpu=1e-6):
    self._callbacks = []
    self._timers = []
    self._settled_hooks = []
    self._now = self.EPOCH if epoch is None else float(epoch)
    self.cpu = cpu
    self.errors = []
    self.dispatched = 0

  def on_settled(self, fn):
    """fn() is called once when no callback is runnable and no timer is due."""
    self._settled_hooks.append(fn)

  def next_timer_due(self):
    while self._timers:
      due, _, t, gen = self._timers[0]
      if gen != t._gen or not t._active:
        heapq.heappop(self._timers)
        continue
      return due
    return None

  # --- time
  def now(self):
    return self._now

  def update_now(self):
    pass

  update = update_now

  # --- watchers
  def timer(self, after, repeat=0.0, ref=True, priority=None):
    return _Timer(self, after, repeat, ref)

  def _add_timer(self, due, t, gen):
    heapq.heappush(self._timers, (due, next(self._seq), t, gen))

  def _dummy(self, *a, **k):
    return _Watcher(self)

  io = idle = prepare = check = fork = async_ = child = stat = signal = _dummy

  def closing_fd(self, fd):
    return False

  def run_callback(self, func, *args):
    cb = _Callback(func, args)
    self._callbacks.append(cb)
    return cb

  run_callback_threadsafe = run_callback

  def destroy(self):
    pass

  def reinit(self):
    pass

  def debug(self):
    return []

  def _format(self):
    return 'VirtualLoop'

  @property
  def pendingcnt(self):
    return len(self._callbacks)

  @property
  def activecnt(self):
    return len(self._timers)

  def install_sigchld(self):
    pass

  def reset_sigchld(self):
    pass

  # --- run
  def _run_callbacks(self):
    while self._callbacks:
      cbs, self._callbacks = self._callbacks, []
      for cb in cbs:
        f, a = cb.callback, cb.args
        if f is None:
          continue
        cb.callback = None
        self._now += self.cpu
        self.dispatched += 1
        try:
          f(*a)
        except BaseException:
          self._handle_error(cb, *sys.exc_info())
        finally:
          cb.args = None

  def _handle_error(self, ctx, t, v, tb):
    self.errors.append((ctx, t, v))
    h = self.error_handler
    if h is not None:
      h.handle_error(ctx, t, v, tb)
    else:
      traceback.print_exception(t, v, tb)

  def _fire(self, t):
    cb, args = t.callback, t.args
    t._active = False
    self._now += self.cpu
    self.dispatched += 1
    try:
      cb(*args)
    except BaseException:
      self._handle_error(t, *sys.exc_info())

  def run(self, nowait=False, once=False):
    while True:
      self._run_callbacks()
      due = self.next_timer_due()
      if due is not None and due <= self._now:
        _, _, t, _ = heapq.heappop(self._timers)
        self._fire(t)
        continue
      if self._settled_hooks:
        hooks, self._settled_hooks = self._settled_hooks, []
        for h in hooks:
          h()
        continue
      if due is not None:
        _, _, t, _ = heapq.heappop(self._timers)
        self._now = due
        self._fire(t)
        continue
      return
