"""Independent Kafka v0 wire codec (ProduceRequest / ProduceResponse /
MetadataRequest / MetadataResponse), written from the protocol guide."""
import zlib


class KafkaDecodeError(Exception):
  pass


class _R(object):
  def __init__(self, b):
    self.b = b
    self.o = 0

  def take(self, n):
    if n < 0 or self.o + n > len(self.b):
      raise KafkaDecodeError('need %d bytes at offset %d of %d' % (n, self.o, len(self.b)))
    v = self.b[self.o:self.o + n]
    self.o += n
    return bytes(v)

  def i8(self):
    return int.from_bytes(self.take(1), 'big', signed=True)

  def i16(self):
    return int.from_bytes(self.take(2), 'big', signed=True)

  def i32(self):
    return int.from_bytes(self.take(4), 'big', signed=True)

  def i64(self):
    return int.from_bytes(self.take(8), 'big', signed=True)

  def string(self):
    n = self.i16()
    if n == -1:
      return None
    return self.take(n)

  def bytes_(self):
    n = self.i32()
    if n == -1:
      return None
    return self.take(n)

  def left(self):
    return len(self.b) - self.o


def parse_request(frame):
  """frame: request without the 4-byte size prefix."""
  r = _R(frame)
  d = {'api_key': r.i16(), 'api_version': r.i16(), 'correlation_id': r.i32(), 'client_id': r.string()}
  if d['api_key'] == 0:
    d['acks'] = r.i16()
    d['timeout'] = r.i32()
    topics = []
    for _ in range(r.i32()):
      name = r.string()
      parts = []
      for _ in range(r.i32()):
        pid = r.i32()
        size = r.i32()
        mset = _R(r.take(size))
        msgs = []
        while mset.left():
          off = mset.i64()
          msize = mset.i32()
          m = _R(mset.take(msize))
          crc = m.i32() & 0xffffffff
          body = m.b[m.o:]
          magic = m.i8()
          attrs = m.i8()
          key = m.bytes_()
          value = m.bytes_()
          if m.left():
            raise KafkaDecodeError('%d trailing bytes inside a message' % m.left())
          msgs.append({'offset': off, 'crc': crc, 'crc_ok': (zlib.crc32(body) & 0xffffffff) == crc,
                       'magic': magic, 'attrs': attrs, 'key': key, 'value': value})
        parts.append({'partition': pid, 'messages': msgs})
      topics.append({'topic': name, 'partitions': parts})
    d['topics'] = topics
  elif d['api_key'] == 3:
    d['topics'] = [r.string() for _ in range(r.i32())]
  else:
    raise KafkaDecodeError('api key %d' % d['api_key'])
  if r.left():
    raise KafkaDecodeError('%d trailing bytes after the request' % r.left())
  return d


def _s(b):
  return len(b).to_bytes(2, 'big', signed=True) + b


def _i(v, n):
  return int(v).to_bytes(n, 'big', signed=True)


def encode_produce_response(correlation_id, topics):
  """topics: [(name, [(partition, error, offset), ...]), ...]"""
  b = _i(correlation_id, 4) + _i(len(topics), 4)
  for name, parts in topics:
    b += _s(name) + _i(len(parts), 4)
    for pid, err, off in parts:
      b += _i(pid, 4) + _i(err, 2) + _i(off, 8)
  return len(b).to_bytes(4, 'big') + b


def encode_metadata_response(correlation_id, brokers, topics):
  """brokers: [(node, host, port)]; topics: [(err, name, [(perr, pid, leader, replicas, isr)])]"""
  b = _i(correlation_id, 4) + _i(len(brokers), 4)
  for node, host, port in brokers:
    b += _i(node, 4) + _s(host) + _i(port, 4)
  b += _i(len(topics), 4)
  for err, name, parts in topics:
    b += _i(err, 2) + _s(name) + _i(len(parts), 4)
    for perr, pid, leader, replicas, isr in parts:
      b += _i(perr, 2) + _i(pid, 4) + _i(leader, 4)
      b += _i(len(replicas), 4) + b''.join(_i(x, 4) for x in replicas)
      b += _i(len(isr), 4) + b''.join(_i(x, 4) for x in isr)
  return len(b).to_bytes(4, 'big') + b
