"""Independent mux codec, written from the protocol description
(finagle mux: size:4 type:1(signed) tag:3 body), not from scales' code."""
import struct

T_DISPATCH, R_DISPATCH = 2, -2
T_PING, R_PING = 65, -65
T_DISCARDED = 66
R_ERR, BAD_R_ERR = -128, 127
OK, ERROR, NACK = 0, 1, 2


class MuxDecodeError(Exception):
  pass


def _u16(b, off):
  if off + 2 > len(b):
    raise MuxDecodeError('truncated at %d' % off)
  return (b[off] << 8) | b[off + 1], off + 2


def _take(b, off, n):
  if off + n > len(b):
    raise MuxDecodeError('field of %d bytes at %d overruns frame of %d' % (n, off, len(b)))
  return bytes(b[off:off + n]), off + n


def split_frames(buf):
  """buf: bytearray; returns list of complete frame payloads (without the size
  prefix) and removes them from buf."""
  out = []
  while len(buf) >= 4:
    n = int.from_bytes(buf[:4], 'big', signed=True)
    if n < 4:
      raise MuxDecodeError('frame size %d' % n)
    if len(buf) < 4 + n:
      break
    out.append(bytes(buf[4:4 + n]))
    del buf[:4 + n]
  return out


def decode_header(frame):
  typ = frame[0] - 256 if frame[0] > 127 else frame[0]
  return typ, (frame[1] << 16) | (frame[2] << 8) | frame[3]


def decode_frame(frame):
  """frame: payload after the size prefix -> dict."""
  if len(frame) < 4:
    raise MuxDecodeError('short frame')
  typ = frame[0] - 256 if frame[0] > 127 else frame[0]
  tag = (frame[1] << 16) | (frame[2] << 8) | frame[3]
  body = frame[4:]
  d = {'type': typ, 'tag': tag, 'body': bytes(body)}
  if typ == T_DISPATCH:
    off = 0
    n, off = _u16(body, off)
    ctx = []
    for _ in range(n):
      kl, off = _u16(body, off)
      k, off = _take(body, off, kl)
      vl, off = _u16(body, off)
      v, off = _take(body, off, vl)
      ctx.append((k, v))
    dl, off = _u16(body, off)
    dest, off = _take(body, off, dl)
    nd, off = _u16(body, off)
    dtab = []
    for _ in range(nd):
      sl, off = _u16(body, off)
      s, off = _take(body, off, sl)
      tl, off = _u16(body, off)
      t, off = _take(body, off, tl)
      dtab.append((s, t))
    d.update(contexts=ctx, dest=dest, dtab=dtab, payload=bytes(body[off:]))
  elif typ == T_DISCARDED:
    if len(body) < 3:
      raise MuxDecodeError('short Tdiscarded')
    d.update(which=(body[0] << 16) | (body[1] << 8) | body[2], why=bytes(body[3:]))
  return d


def encode_frame(typ, tag, body=b''):
  f = struct.pack('!b', typ) + bytes([(tag >> 16) & 0xff, (tag >> 8) & 0xff, tag & 0xff]) + body
  return len(f).to_bytes(4, 'big') + f


def encode_rdispatch(tag, status, payload, contexts=()):
  b = bytearray([status])
  b += len(contexts).to_bytes(2, 'big')
  for k, v in contexts:
    b += len(k).to_bytes(2, 'big') + k + len(v).to_bytes(2, 'big') + v
  b += payload
  return encode_frame(R_DISPATCH, tag, bytes(b))
