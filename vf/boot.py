"""Process bootstrap: virtual loop, virtual time.time, /repo on sys.path.

Must be imported before gevent's hub exists and before ``scales`` is imported.
"""
import os
import sys
import time as _time

VERIF_DIR = os.path.dirname(os.path.dirname(os.path.abspath(__file__)))
# scratch output root (evidence, replays) for mutant / seeded-change runs; registered checks write under /verif
OUT_DIR = os.environ.get('VERIF_OUT') or VERIF_DIR
REPO = os.environ.get('VERIF_REPO', '/repo')

if VERIF_DIR not in sys.path:
  sys.path.insert(0, VERIF_DIR)
_deps = os.path.join(VERIF_DIR, '.deps')
if os.path.isdir(_deps) and _deps not in sys.path:
  sys.path.append(_deps)
# the working tree under test goes first so that it shadows any installed copy
sys.path.insert(0, REPO)

# guard for (currently nonexistent) verification hooks in /repo
os.environ.setdefault('SCALES_VERIF', '1')

REAL_TIME = _time.time

from gevent import config as _config  # noqa: E402
_config.loop = 'vf.vloop.VirtualLoop'
import gevent  # noqa: E402

hub = gevent.get_hub()
loop = hub.loop
assert type(loop).__name__ == 'VirtualLoop', type(loop)
_time.time = loop.now


# Exceptions that kill a greenlet are printed by the hub; keep them out of the
# check output (the checks observe them through their consequences) but keep a
# record for diagnosis.  VF_DEBUG=1 prints them as well.
greenlet_errors = []
_orig_print_exception = hub.print_exception


def _record_exception(context, t, v, tb):
  import traceback
  try:
    where = traceback.extract_tb(tb)[-1] if tb is not None else None
    greenlet_errors.append((
        getattr(t, '__name__', str(t)), str(v),
        '%s:%s' % (os.path.basename(where.filename), where.lineno) if where else None))
  except Exception:  # never raise from the hub's error path
    pass
  if os.environ.get('VF_DEBUG'):
    _orig_print_exception(context, t, v, tb)


hub.print_exception = _record_exception

import warnings  # noqa: E402
warnings.filterwarnings('ignore', category=DeprecationWarning)

import scales  # noqa: E402,F401
assert os.path.abspath(scales.__file__).startswith(os.path.abspath(REPO)), scales.__file__
