#!/usr/bin/env python3
"""Regenerate /verif/MANIFEST.json from the table below (keeps it valid at all times)."""
import json
import os

HERE = os.path.dirname(os.path.dirname(os.path.abspath(__file__)))

PY = '/venv/bin/python'

# id -> (level category, level text, level note, technique, design ref, engine)
CHECKS = {
    'C01': ('exploration',
            'Generated world plans run complete Thrift and ThriftMux clients built by the public builders on a virtual-time '
            'gevent loop over a simulated network; delays are drawn from a palette centred on each call\'s deadline so that '
            'reply/timer, fault/timer and open/call races are the common case. Per call: exactly one completion that never '
            'changes afterwards, outcome in {echo of an endpoint, error, TimeoutError}, completion <= t+T rounded up to 10 ms '
            '(+1 ms), TimeoutError not before t+T (-1 ms), including calls issued while the client is still opening.',
            'kernel sockets / libev replaced by the simulation; 1 ms tolerance; peers never forge replies',
            'Hypothesis world plans on virtual-time gevent + simulated network; exactly-once and deadline-band oracle',
            '5/C01', 'simnet'),
    'C02': ('exploration',
            'World plans tuned for concurrency and stale replies (distinct arguments incl. non-ASCII, multi-method interface, '
            'pooled serial connections that are reused, many calls in flight on one mux connection with reordered replies and '
            'reply contexts, timeouts shorter than some replies, kills between calls); every returned value must be the echo a '
            'server computed for exactly that call\'s method and argument, and every request a server decoded must be an issued '
            'call, at most once, with equal arguments.',
            'peers never forge replies; no assertion on failed / timed-out calls',
            'Hypothesis world plans; echo-of-own-argument oracle against independently decoding peers',
            '5/C02', 'simnet'),
    'C03': ('exploration',
            'Generated dispatch/complete/down/up/join/leave histories against the real heap and aperture balancers built '
            'from their Builders; at every dispatch the stamped endpoint is compared with a reference model of outstanding '
            'counts and channel states over the members in use at selection time (least-loaded open member; not-open only '
            'when none open; NoMembersError when empty). Hypothesis target() steers the search with the number of heap '
            'order inversions (diagnosis only).',
            'member channels are harness objects; ties may break either way; the set in use is read from the heap at selection',
            'Hypothesis op-list state machine vs per-member load model (heap + aperture)',
            '5/C03', 'simkernel'),
    'C04': ('exploration',
            'Same machine; after every step balancer-attributed load == model outstanding per channel generation (aperture '
            'total too), no "load below Zero" log, no request to a removed member, and Close() of a removed member exactly '
            'once at the step the model predicts (leave step if idle/marked down, else the step draining its last request).',
            '"marked down" read from the heap node just before the leave; channels are harness objects',
            'Hypothesis op-list state machine; load-conservation and drain-then-close oracle',
            '5/C04', 'simkernel'),
    'C05': ('exploration',
            'Generated join/leave histories (duplicates, unknown leaves, re-joins) interleaved with traffic and with a delayed '
            'initial load; after every quiescent step known servers / heap / active+idle partition == model server set; final '
            'saturating probe on the heap balancer touches exactly the server set.',
            'serial notifier; snapshot semantics for GetServers',
            'Hypothesis op-list state machine with init-race provider; set equality + saturating probe',
            '5/C05', 'simkernel'),
    'C06': ('exploration',
            'Generated configurations and histories with virtual time (closed-loop steady phases of 35-60 s, jitter rounds, '
            'failures, joins/leaves) against the real ApertureBalancerSink; every aperture adjustment is observed and checked '
            'for partition/gauges, contraction floor, load-driven growth cap, direction given the published load average, '
            'tracking of the smoothed load after 30 s, and settling when a stable size exists. Liveness is checked as '
            'bounded-time safety.',
            'channels open successfully; tracking band one wide; settling only when a stable size exists with 8% margins',
            'Hypothesis op-list state machine on the virtual clock with instrumented aperture adjustments',
            '5/C06', 'simkernel'),
    'C07': ('exploration',
            'Generated pool configurations and submit/complete/same-instant double release/advance/kill histories against the '
            'real ClientTimeoutSink -> WatermarkPoolSink chain over harness connections on the virtual clock; invariants after '
            'every step (capacity bound, no double lending, FIFO, max-waiters exactly when full and at once, work conservation, '
            'dead-on-release closes the pool and fails each waiter once) and end-of-run leak probe (retained <= min, a burst of '
            'max requests all reach connections).',
            'connections open successfully; a lent request that timed out no longer occupies its connection',
            'Hypothesis op-list state machine on real timeout sink + pool vs queue/capacity model',
            '5/C07', 'simkernel'),
    'C08': ('fault_enumeration',
            'For every small scenario (serial: 1-3 sequential requests with/without deadlines and with an unanswered first '
            'request that forces a reconnect; mux: 0-3 concurrent requests, one possibly unanswered) a fault-free baseline run '
            'yields the I/O operations of each connection; the grid connection x operation index x fault kind (send raises; recv '
            'raises / EOF, immediately or when data arrives; connect refused / error; peer close / reset at 4 times; unanswered '
            'initial ping; peer stops answering pings) is then enumerated completely (exhaustive: true, quick tier), plus '
            'Hypothesis-generated larger scenarios with chunked reads. Oracle: exactly one message per request, an error for '
            'those in flight at the fault; Closed + fault signal after an effective fault; a transport that reports Open and '
            'idle carries a probe request.',
            'one fault per scenario; network simulated below gsocket; sendall atomic; idle serial connections notice a peer close at the next I/O',
            'fault-position x fault-kind enumeration from baseline I/O traces + Hypothesis scenarios; probe-after-fault oracle',
            '5/C08', 'simnet'),
    'C09': ('exploration',
            'Long virtual-time world plans (60-400 s) for both public builder stacks, aperture and heap balancers, 1-3 endpoints '
            'sharing an up/down timeline (reset, down at first connect, silent black-hole for ThriftMux), steady caller traffic, '
            'close at a drawn time, two resurrector configurations. From the network log and call outcomes: no call waits while '
            'down, FailedFastError once the fault is known (one raw connection error per endpoint for first contact), reconnect '
            'gaps non-decreasing / >= initial / <= max / growing, a call succeeds within one maximum retry interval after the '
            'endpoints are back and calls keep succeeding, no connect after close.',
            'endpoints of a plan share one timeline; liveness as bounded-time safety; overhead allowance 1 s (6 s + one ping period for black-holes)',
            'Hypothesis long virtual-time world plans; fail-fast, back-off spacing, recovery bound, silence after close',
            '5/C09', 'simnet'),
    'C10': ('exploration',
            'Generated schedule/cancel/advance histories (actions may schedule or cancel) are run against the real '
            'TimerQueue on a virtual clock and compared with a reference schedule after every clock advance: '
            'exactly-once, never before T, run by the rounded deadline, (rounded deadline, seq) order, cancelled '
            'never runs. Held on every generated history; not a proof.',
            'gevent loop replaced by the virtual-time loop; exact clock; 0.01 s resolution checked with 1 ms tolerance',
            'Hypothesis op-list state machine vs reference schedule on a virtual gevent clock',
            '5/C10', 'simkernel'),
    'C11': ('exploration',
            'Generated histories against the real thriftmux and Kafka multiplexed transports with an adversarial peer '
            '(out-of-order, duplicate, unknown-tag and reserved-tag replies, timeouts before and after transmission with the '
            'send loop held by a gate, re-opens); tags are decoded from the frames the peer receives and checked for range, '
            'uniqueness among unanswered requests, reserved tags, and bounded consumption (max tag <= 1 + peak allocation). '
            'TagPool alone to exhaustion for small max_tag; thorough drains the real 2^24-1 pool once.',
            'forged replies name only reserved / never-allocated / already answered tags; sendall atomic; gate holds a frame before any byte',
            'Hypothesis op-list state machine with adversarial peer; tags decoded by independent codecs',
            '5/C11', 'simnet'),
    'C12': ('exploration',
            'World plans that put each call\'s deadline at a chosen hop (client open, pool queue, connect of a fresh pooled '
            'connection, mux send queue held by a gate, on the wire), just before / after the hop completes; every write is '
            'logged with a global sequence number and attributed to its call by a unique marker. No write of a call\'s request '
            'after its TimeoutError; for ThriftMux a Tdiscarded naming exactly the written tag if the connection is still open, '
            'and never a Tdiscarded for an unwritten tag.',
            'sendall atomic; the gate only holds pings or calls without a deadline inside the run',
            'Hypothesis world plans placing the deadline at each hop; write-after-timeout and Tdiscarded oracle on the net log',
            '5/C12', 'simnet'),
    'C13': ('exploration',
            'Generated calls with drawn client ids, public message properties, deadlines and reply behaviours go through the '
            'real ThriftMux sink chain on the simulated socket; every frame the peer receives is decoded by an independent mux '
            'codec and compared field by field with what was supplied (contexts byte-exact, empty dest/dtab, Thrift payload via '
            'the Thrift library, Tdiscarded naming the request tag). Header writer / reply-header reader / discard body are '
            'round-tripped over tag ranges: boundary ranges in quick, all 2^24 tags in thorough (exhaustive: true).',
            'context keys/values are text; deadline compared with 2 ms tolerance; sendall atomic',
            'Hypothesis + independent mux decoder round trip; exhaustive tag x type header enumeration in thorough',
            '5/C13', 'simnet'),
    'C14': ('exploration',
            'Generated call sequences over the generated Hello interface and a dynamic-style fixture go through MessageDispatcher '
            '-> ThriftSerializerSink -> serial transport on the simulated socket; the peer decodes with the Thrift library\'s '
            'pure-Python protocol and a processor (scales encodes with the C codec): method, value-equal arguments, framing; '
            'caller outcome for value / void / declared exception / application exception; every sequence is run under two read '
            'chunkings and the outcomes must agree.',
            'fixture service hand-written in py:dynamic layout and self-checked; finite doubles; no lone surrogates',
            'differential test against the Thrift library codec + chunking metamorphic relation',
            '5/C14', 'simnet'),
    'C15': ('exploration',
            'Generated produce calls and concurrent requests through KafkaSerializerSink -> KafkaTransportSink on the simulated '
            'socket; the harness\'s strict Kafka v0 parser checks every size, CRC and header field of the request bytes; produce '
            'and metadata responses from the harness encoder must decode to exactly the encoded tuples and reach the request '
            'with the same correlation id under any reply order.',
            'topics and payloads are bytes; message carries the KafkaEndpoint the balancer would stamp',
            'Hypothesis + independent Kafka v0 parser/encoder; CRC/size/correlation oracle',
            '5/C15', 'simnet'),
    'C16': ('exploration',
            'Three generated op-list machines: SingletonPoolSink over harness connections (<= 1 live connection, no request on a '
            'dead connection, one fresh connection per failure / full close, nothing stuck), RefCountedSink (underlying Open on '
            '0->1 only, Close on 1->0 only, surplus closes ignored, same pending open result for all holders) and '
            'SharedSinkProvider (identical sink per live key, falsy key never shared).',
            'connections open successfully; requests racing the last Close are promised nothing; CPython refcounting empties the weak cache',
            'Hypothesis op-list state machines for singleton pool, ref-counted sink, shared provider',
            '5/C16', 'simkernel'),
    'C17': ('exploration',
            'All outcome / pre-completion / completion-order assignments of WhenAll and WhenAny up to n=4 (quick) or n=5 '
            '(thorough), all Unwrap chains up to depth 3/4 and all ContinueWith / Map variants are enumerated completely '
            '(exhaustive: true for that sub-space) and larger ones (n <= 8, depth <= 6) are generated; the combined result '
            'is compared with the specification after every completion step.',
            'inputs complete once; at least one input; completion order among inputs already complete at call time is unobservable',
            'exhaustive enumeration of small completion spaces + Hypothesis for larger, vs executable specification',
            '5/C17', 'pbt'),
    'C18': ('exploration',
            'Generated metric update sequences through freshly constructed equal Source objects are compared with a '
            'dictionary model (sums, last gauge, series count = distinct sources, percentile range/monotonicity), plus N '
            'calls through a real MessageDispatcher on a stub sink. Held on every generated sequence.',
            'one field tuple per aggregation key for gauges/percentiles; relative tolerance 1e-9 on percentiles',
            'Hypothesis update sequences vs dictionary model; end-to-end series-count bound',
            '5/C18', 'pbt'),
    'C19': ('exploration',
            'Generated znode histories (member names reused, parent deleted with members present and re-created, consumer '
            'callbacks that raise, per-call latencies so that members vanish between listing and reading) against the real '
            'ServerSet and the real kazoo DataWatch/ChildrenWatch recipes on an in-process fake Kazoo client; at quiescence the '
            'join/leave log replayed in order equals the members in the tree, no double join/leave, and a real HeapBalancerSink '
            'behind ZooKeeperServerSetProvider knows exactly the tree\'s endpoints; optionally a second balancer whose provider '
            'comes from ScalesUriParser for the same zk:// URI (one of the two is closed mid-history) and a greenlet that takes '
            'get_members() snapshots every millisecond throughout.',
            'fake Kazoo client (no session loss); one callback greenlet that survives callback exceptions',
            'Hypothesis op-list state machine on fake Kazoo + real kazoo recipes vs znode-tree model',
            '5/C19', 'simkernel'),
    'C20': ('exploration',
            'Generated interface classes (underscore-decorated, inherited and overriding methods, varied signatures) are '
            'proxied and called against a recording stub dispatcher with identity checks on every forwarded argument and '
            'returned result; generated tcp/zk/other URIs are parsed and compared with the generated endpoint list.',
            'plain instance methods only; no m/m_async pairs; no IPv6 literals; ZooKeeper hosts compared as case-insensitive multiset',
            'Hypothesis-generated classes and URIs vs identity oracle on a stub dispatcher',
            '5/C20', 'pbt'),
}

NOT_YET = 'not claimed'


def main():
  props = [json.loads(l) for l in open(os.path.join(HERE, 'properties.jsonl'))]
  checks = []
  na = []
  for p in props:
    pid = p['id']
    if pid in CHECKS:
      cat, text, note, tech, ref, engine = CHECKS[pid]
      checks.append({
          'property_id': pid,
          'quick_cmd': '%s -m vf.run %s --tier quick' % (PY, pid),
          'thorough_cmd': '%s -m vf.run %s --tier thorough' % (PY, pid),
          'evidence_file': 'evidence/%s.json' % pid,
          'replay_cmd_template': '%s -m vf.run %s --replay {path}' % (PY, pid),
          'engine': engine,
          'level_claimed': {'category': cat, 'text': text, 'design_ref': 'DESIGN.md ' + ref},
          'level_note': note,
          'technique': tech,
      })
    else:
      na.append({'property_id': pid, 'reason': NOT_YET})
  served = {}
  for c in checks:
    served.setdefault(c['engine'], []).append(c['property_id'])
  doc = {
      'version': 1,
      'setup_cmd': ('%s -c "import hypothesis" 2>/dev/null || %s -m pip install -q --no-index '
                    '--find-links /opt/veriftools/wheels --target /verif/.deps hypothesis') % (PY, PY),
      'hooks': {
          'guard': 'SCALES_VERIF',
          'enable': 'no source hooks: the harness patches module attributes at run time (vf/boot.py, vf/world.py); '
                    'SCALES_VERIF=1 is exported by the runner but nothing in /repo reads it',
          'baseline_off_cmd': 'cd /repo && env -u SCALES_VERIF /venv/bin/python -m pytest -ra -q -p no:cacheprovider '
                              '--timeout=900 --continue-on-collection-errors',
          'source_commits': [],
          'add_only': True,
      },
      'engines': [
          {'name': 'simkernel', 'path': 'vf/vloop.py', 'serves_properties': sorted(served.get('simkernel', [])),
           'kind_free_text': 'virtual-time gevent event loop + per-case World isolation; Hypothesis generates plans'},
          {'name': 'simnet', 'path': 'vf/simnet.py', 'serves_properties': sorted(served.get('simnet', [])),
           'kind_free_text': 'simulated network below scales_socket.gsocket with scripted peers and fault injection'},
          {'name': 'pbt', 'path': 'vf/run.py', 'serves_properties': sorted(served.get('pbt', [])),
           'kind_free_text': 'plain Hypothesis property tests / exhaustive enumeration of small finite sub-spaces'},
      ],
      'checks': checks,
      'not_applicable': na,
      'notes': 'Runner: vf/run.py (exit 0/1/2). Known findings: known_findings.json. Mutant self-test: selftest/selftest.py.',
  }
  with open(os.path.join(HERE, 'MANIFEST.json'), 'w') as f:
    json.dump(doc, f, indent=1)
    f.write('\n')


if __name__ == '__main__':
  main()
