#!/usr/bin/env python3
"""Regenerate seeded/INDEX.md from the meta.json / README.md of every stored seeded change."""
import json
import os
import re

VERIF = os.path.dirname(os.path.dirname(os.path.abspath(__file__)))
SEEDED = os.path.join(VERIF, 'seeded')

HEAD = """# Independently written breakages

Each directory holds a change written by a sub-agent that saw only the property text and a scratch worktree of
the repository (never /verif): `patch.diff`, the agent's demonstration `demo.py` (passes on the unchanged tree,
fails with the change), its `README.md` and `meta.json` (what was run to confirm it and which check caught it).
Confirmed = the patch applies, the repository's 52 tests still pass with it, the demonstration passes without
it and fails with it (`tools/seedcheck.py`).  `Cxx-agent-n` = round 1, `Cxx-agent2-n` ... `Cxx-agent9-n` = rounds 2-9 (round 9: ten properties only, changes outside the anchored files)
(from round 2 on the agents were told which root causes had already been used, from round 3 on they were pointed at shared
infrastructure, process-wide state, configuration paths and unusual inputs).  6 + 14 + 29 + 29 + 21 + 19 + 23 + 21 + 16 changes were missed by
the checks as they stood when the change was written and led to the strengthenings listed in DESIGN.md section 9; a change
whose last column names another property's check is caught there rather than by its own property's check; `MISSED` =
not caught by any check (the reason is in the change's meta.json, field `needs`).  `tools/seedrecheck.sh` re-runs every
change against the current checks and rewrites the verdicts below (`tools/seedindex.py` regenerates this file).

| name | property | change | confirmed | caught by (check:finding key) |
|---|---|---|---|---|
"""


def title(d):
  p = os.path.join(d, 'README.md')
  if not os.path.exists(p):
    return ''
  for line in open(p, encoding='utf-8', errors='replace'):
    line = line.strip()
    if line.startswith('#'):
      t = line.lstrip('#').strip()
      t = re.sub(r'^C\d\d\s*[-:]?\s*', '', t)
      return t.replace('|', '/')[:150]
  return ''


def main():
  rows = []
  for n in sorted(os.listdir(SEEDED)):
    d = os.path.join(SEEDED, n)
    mp = os.path.join(d, 'meta.json')
    if not os.path.isfile(mp):
      continue
    m = json.load(open(mp))
    caught = ', '.join('%s:%s' % (c, (v.get('key') or '').replace('key=', '')) for c, v in sorted(m.get('checks', {}).items()) if v.get('exit') == 1)
    rows.append('| %s | %s | %s | %s | %s |' % (n, m['property'], title(d), 'yes' if m.get('confirmed') else 'NO', caught or 'MISSED'))
  with open(os.path.join(SEEDED, 'INDEX.md'), 'w') as f:
    f.write(HEAD + '\n'.join(rows) + '\n')
  print('%d changes, %d caught' % (len(rows), len([r for r in rows if not r.endswith('MISSED |')])))


if __name__ == '__main__':
  main()
