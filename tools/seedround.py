#!/usr/bin/env python3
"""Prepare a round of independently seeded changes: one scratch worktree of /repo and one property file per property.

  tools/seedround.py <root dir outside /repo and /verif>

Writes <root>/<Cxx>.prop.txt (the property as given, plus one line per change already stored for it: the file it
touched and the heading of its README, so that the next author looks for a different root cause) and creates
<root>/<Cxx> as a detached worktree of /repo.  Nothing else from /verif goes into <root>.  Not a registered check.
"""
import json
import os
import subprocess
import sys

VERIF = os.path.dirname(os.path.dirname(os.path.abspath(__file__)))


def main():
  root = sys.argv[1]
  os.makedirs(root, exist_ok=True)
  props = [json.loads(l) for l in open(os.path.join(VERIF, 'properties.jsonl'))]
  for p in props:
    pid = p['id']
    lines = ['PROPERTY %s' % pid, '', json.dumps(p, indent=1), '',
             'Changes other people already produced for this property (do not repeat these or close variants):', '']
    for name in sorted(os.listdir(os.path.join(VERIF, 'seeded'))):
      d = os.path.join(VERIF, 'seeded', name)
      if not name.startswith(pid + '-') or not os.path.isdir(d):
        continue
      title = open(os.path.join(d, 'README.md')).readline().lstrip('# ').strip()
      files = sorted(set(l.split(' b/')[-1].strip() for l in open(os.path.join(d, 'patch.diff')) if l.startswith('diff --git')))
      lines.append(' - [%s] %s' % (', '.join(files), title))
    with open(os.path.join(root, pid + '.prop.txt'), 'w') as f:
      f.write('\n'.join(lines) + '\n')
    wt = os.path.join(root, pid)
    if not os.path.exists(wt):
      subprocess.check_call(['git', '-C', '/repo', 'worktree', 'add', '--detach', '-q', wt, 'HEAD'])
  print('prepared', len(props), 'worktrees under', root)


if __name__ == '__main__':
  main()
