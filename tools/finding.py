#!/usr/bin/env python3
"""tools/finding.py <property> <key> <open|fixed> <commit|-> <what...>  - add/update an entry in known_findings.json"""
import json, os, sys
HERE = os.path.dirname(os.path.dirname(os.path.abspath(__file__)))
p = os.path.join(HERE, 'known_findings.json')
doc = json.load(open(p))
prop, key, status, commit = sys.argv[1:5]
what = ' '.join(sys.argv[5:])
ent = {'property': prop, 'key': key, 'status': status, 'what': what}
if status == 'fixed':
  ent['commit'] = commit
  ent['line'] = 'fixed: property=%s %s %s' % (prop, commit, what)
else:
  ent['line'] = 'KNOWN-FINDING: property=%s %s' % (prop, what)
doc['findings'] = [e for e in doc['findings'] if not (e['property'] == prop and e['key'] == key)] + [ent]
json.dump(doc, open(p, 'w'), indent=1)
open(p, 'a').write('\n')
