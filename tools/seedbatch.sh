#!/bin/bash
# tools/seedbatch.sh <srcroot> <suffix> C01 C02 ...   - run seedcheck for <srcroot>/<Cxx>/out/{1,2}
root=$1; suf=$2; shift 2
for c in "$@"; do for n in 1 2; do
  if [ -f $root/$c/out/$n/patch.diff ]; then
    echo "== $c-$suf-$n"; /venv/bin/python /verif/tools/seedcheck.py $c $root/$c/out/$n $c-$suf-$n 2>&1 | tail -4 | cut -c1-260
  fi
done; done
