#!/venv/bin/python
"""Confirm an independently written seeded change and run the checks against it.

  tools/seedcheck.py <property id> <dir with patch.diff + demo.py [+ README.md]> <name> [--checks C01,C12] [--examples N]

1. scratch copy of /repo's working tree (outside /repo and /verif), patch applied with `git apply`;
2. the repository's own test suite must still pass on it;
3. the demonstration must pass on the unchanged tree and fail on the patched one;
4. the property's quick check (and any extra checks named) runs with VERIF_REPO=<scratch>;
5. on success the change is stored as /verif/seeded/<name>/ (patch.diff, demo.py, README.md, meta.json).
The scratch copy is removed at the end.  Not a registered check.
"""
import argparse
import json
import os
import shutil
import subprocess
import sys
import tempfile

VERIF = os.path.dirname(os.path.dirname(os.path.abspath(__file__)))
REPO = '/repo'
PY = '/venv/bin/python'


def sh(cmd, cwd, env=None, timeout=900):
  p = subprocess.run(cmd, cwd=cwd, env=env, capture_output=True, text=True, timeout=timeout)
  return p.returncode, (p.stdout + p.stderr)


def main():
  ap = argparse.ArgumentParser()
  ap.add_argument('prop')
  ap.add_argument('src')
  ap.add_argument('name')
  ap.add_argument('--checks', default=None)
  ap.add_argument('--examples', default=None)
  ap.add_argument('--needs', default='')
  a = ap.parse_args()
  scratch = tempfile.mkdtemp(prefix='vf-seed-')
  meta = {'property': a.prop, 'name': a.name, 'ran': []}
  try:
    clean = os.path.join(scratch, 'clean')
    pat = os.path.join(scratch, 'patched')
    ign = shutil.ignore_patterns('.git', '__pycache__', '*.pyc', '.pytest_cache', 'out')
    shutil.copytree(REPO, clean, ignore=ign)
    shutil.copytree(REPO, pat, ignore=ign)
    patch = os.path.abspath(os.path.join(a.src, 'patch.diff'))
    rc, out = sh(['git', 'apply', '--unsafe-paths', '--directory=' + pat, patch], cwd='/')
    if rc != 0:
      # not a git dir: fall back to patch(1)
      rc, out = sh(['patch', '-p1', '-i', patch], cwd=pat)
    if rc != 0:
      print('PATCH DOES NOT APPLY', out[-500:])
      return 2
    meta['ran'].append('git apply patch.diff on a scratch copy of /repo')
    rc, out = sh([PY, '-m', 'pytest', '-q', '-p', 'no:cacheprovider', '--timeout=900', 'test/scales'], cwd=pat)
    tests_ok = rc == 0
    meta['repo_tests_pass_with_change'] = tests_ok
    meta['ran'].append('pytest test/scales on the patched copy: %s' % out.strip().splitlines()[-1])
    print('repo tests with change:', 'pass' if tests_ok else 'FAIL', out.strip().splitlines()[-1])
    demo = os.path.abspath(os.path.join(a.src, 'demo.py'))
    env = dict(os.environ)
    res = {}
    for label, d in (('unchanged', clean), ('patched', pat)):
      os.makedirs(os.path.join(d, 'out', 'x'), exist_ok=True)
      shutil.copy(demo, os.path.join(d, 'out', 'x', 'demo.py'))
      env['PYTHONPATH'] = d
      try:
        rc, out = sh([PY, 'out/x/demo.py'], cwd=d, env=env, timeout=120)
      except subprocess.TimeoutExpired:
        rc, out = 124, 'timeout'
      res[label] = rc
      print('demo on %s tree: exit %d %s' % (label, rc, out.strip().splitlines()[-1][:160] if out.strip() else ''))
    meta['demo_exit'] = res
    meta['ran'].append('demo.py on unchanged copy (exit %d) and patched copy (exit %d)' % (res['unchanged'], res['patched']))
    confirmed = tests_ok and res['unchanged'] == 0 and res['patched'] != 0
    meta['confirmed'] = confirmed
    checks = [a.prop] + ([c for c in a.checks.split(',') if c and c != a.prop] if a.checks else [])
    verdicts = {}
    env = dict(os.environ)
    env['VERIF_REPO'] = pat
    env.setdefault('VERIF_SEED', '1')
    env['VERIF_OUT'] = os.path.join(scratch, 'out')      # evidence / replays of these runs never touch /verif
    for c in checks:
      cmd = [PY, '-m', 'vf.run', c, '--tier', 'quick']
      if a.examples:
        cmd += ['--examples', a.examples]
      rc, out = sh(cmd, cwd=VERIF, env=env, timeout=1800)
      key = [l.strip() for l in out.splitlines() if l.strip().startswith('key=')]
      detail = [l.strip() for l in out.splitlines() if l.strip().startswith('detail=')]
      verdicts[c] = {'exit': rc, 'key': key[0] if key else None, 'detail': detail[0][:300] if detail else None}
      print('check %s: exit %d %s' % (c, rc, key[0] if key else out.strip().splitlines()[-1][:200]))
    meta['checks'] = verdicts
    meta['caught_by'] = sorted(c for c, v in verdicts.items() if v['exit'] == 1)
    meta['needs'] = a.needs
    if confirmed:
      dst = os.path.join(VERIF, 'seeded', a.name)
      os.makedirs(dst, exist_ok=True)
      rd = os.path.join(a.src, 'README.md')
      for src_, name_ in ((patch, 'patch.diff'), (demo, 'demo.py'), (rd, 'README.md')):
        if os.path.exists(src_) and os.path.abspath(src_) != os.path.join(dst, name_):
          shutil.copy(src_, os.path.join(dst, name_))
      with open(os.path.join(dst, 'meta.json'), 'w') as f:
        json.dump(meta, f, indent=1, sort_keys=True)
        f.write('\n')
      print('stored', dst, 'caught_by', meta['caught_by'])
    else:
      print('NOT CONFIRMED (not stored)')
    return 0
  finally:
    shutil.rmtree(scratch, ignore_errors=True)


if __name__ == '__main__':
  sys.exit(main())
