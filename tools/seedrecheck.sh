#!/bin/bash
# tools/seedrecheck.sh [-j N] [name...] - re-run seedcheck for stored seeded changes (default: all) against the current checks
cd /verif
jobs=6; if [ "$1" = "-j" ]; then jobs=$2; shift 2; fi
names="$@"; [ -z "$names" ] && names=$(ls seeded | grep -v INDEX)
one() {
  n=$1
  p=$(python3 -c "import json;print(json.load(open('seeded/$n/meta.json'))['property'])")
  needs=$(python3 -c "import json;print(json.load(open('seeded/$n/meta.json')).get('needs',''))")
  checks=$(python3 -c "import json;print(','.join(sorted(json.load(open('seeded/$n/meta.json')).get('checks',{}))))")
  out=$(/venv/bin/python tools/seedcheck.py $p seeded/$n $n --needs "$needs" --checks "$checks" 2>&1 | grep "^check\|NOT CONF\|DOES NOT" | cut -c1-160 | tr '\n' ' ')
  echo "$n: $out"
}
export -f one
echo $names | tr ' ' '\n' | xargs -P $jobs -I{} bash -c 'one {}'
